package main

// C04 — static typing rules are exactly those of the specification.
//
// Part A (type level, exhaustive): every type of the model's shape universe up
// to a nesting depth (all Fixed-bit placements, the interned EMPTY_*/GENERIC_*
// identities, none) is built as a real *parser.Type and the real functions
// (Equals, accepts, matches, infer, fixedType, String, combineTypes — through the
// verif hooks) are compared with the extracted Coq model on the full matrix.
// On the sub-universe the specification speaks about (variables, constants,
// empty literals) the implementation is additionally compared with the
// specification-side relations (assignable_b, unify, strictest of TypesSpec.v).
//
// Part B (program level): for context kind × value form × type pair a small evy
// program is generated, parsed and run on the real implementation; verdict
// (accept / reject / Go panic) and typeof output are compared with the
// implementation model (correspondence) and with the verdict computed from the
// specification (property oracle).

import (
	"encoding/json"
	"fmt"
	"os"
	"sort"
	"strings"

	"evylang.dev/evy/pkg/parser"
)

func init() { register("C04", runC04) }

// ---------------------------------------------------------------- model types

type mty struct {
	K     string // num string bool any none arr map earr emap garr gmap
	Fixed bool
	Sub   *mty
}

func (t *mty) sx() string {
	switch t.K {
	case "arr", "map":
		f := "0"
		if t.Fixed {
			f = "1"
		}
		return "(" + t.K + " " + f + " " + t.Sub.sx() + ")"
	}
	return t.K
}

// goType builds the *parser.Type: interned pointers for leaves and the
// EMPTY/GENERIC shapes, a fresh allocation for every composite node.
func (t *mty) goType() *parser.Type {
	switch t.K {
	case "num":
		return parser.NUM_TYPE
	case "string":
		return parser.STRING_TYPE
	case "bool":
		return parser.BOOL_TYPE
	case "any":
		return parser.ANY_TYPE
	case "none":
		return parser.NONE_TYPE
	case "earr":
		return parser.EMPTY_ARRAY
	case "emap":
		return parser.EMPTY_MAP
	case "garr":
		return parser.GENERIC_ARRAY
	case "gmap":
		return parser.GENERIC_MAP
	case "arr":
		return &parser.Type{Name: parser.ARRAY, Sub: t.Sub.goType(), Fixed: t.Fixed}
	case "map":
		return &parser.Type{Name: parser.MAP, Sub: t.Sub.goType(), Fixed: t.Fixed}
	}
	panic("bad mty " + t.K)
}

// canonGo renders a *parser.Type produced by the implementation in the wire
// syntax of the model, recognising the interned identities by pointer.
func canonGo(t *parser.Type) string {
	switch t {
	case nil:
		return "nil"
	case parser.NUM_TYPE:
		return "num"
	case parser.STRING_TYPE:
		return "string"
	case parser.BOOL_TYPE:
		return "bool"
	case parser.ANY_TYPE:
		return "any"
	case parser.NONE_TYPE:
		return "none"
	case parser.EMPTY_ARRAY:
		return "earr"
	case parser.EMPTY_MAP:
		return "emap"
	case parser.GENERIC_ARRAY:
		return "garr"
	case parser.GENERIC_MAP:
		return "gmap"
	}
	f := "0"
	if t.Fixed {
		f = "1"
	}
	switch t.Name {
	case parser.ARRAY:
		return "(arr " + f + " " + canonGo(t.Sub) + ")"
	case parser.MAP:
		return "(map " + f + " " + canonGo(t.Sub) + ")"
	}
	// a leaf that is not the interned pointer: the model's claim "all leaves
	// are interned" would be wrong
	return fmt.Sprintf("(noninterned %s %s)", t.Name.String(), f)
}

var c04Leaves = []string{"num", "string", "bool", "any", "none", "earr", "emap", "garr", "gmap"}

// all model types of nesting depth <= d
func c04Types(d int) []*mty {
	var out []*mty
	for _, l := range c04Leaves {
		out = append(out, &mty{K: l})
	}
	if d == 0 {
		return out
	}
	for _, s := range c04Types(d - 1) {
		for _, k := range []string{"arr", "map"} {
			for _, f := range []bool{false, true} {
				out = append(out, &mty{K: k, Fixed: f, Sub: s})
			}
		}
	}
	return out
}

func (t *mty) hasFixed() bool {
	for ; t != nil; t = t.Sub {
		if t.Fixed {
			return true
		}
	}
	return false
}

func (t *mty) leaf() string {
	for t.Sub != nil {
		t = t.Sub
	}
	return t.K
}

func (t *mty) hasLeaf(ks ...string) bool {
	l := t.leaf()
	for _, k := range ks {
		if l == k {
			return true
		}
	}
	return false
}

// specSX: the type with Fixed bits erased, in the specification's syntax.
func (t *mty) specSX() string {
	switch t.K {
	case "arr", "map":
		return "(" + t.K + " " + t.Sub.specSX() + ")"
	}
	return t.K
}

// pure value types: what the specification speaks about.
// variable: Fixed at the top (composite) or a basic/any leaf, no empty leaf;
// constant/empty literal: no Fixed bit anywhere.
func (t *mty) specValueKind() string {
	if t.hasLeaf("none", "garr", "gmap") {
		return ""
	}
	if !t.hasFixed() {
		return "const"
	}
	if t.Fixed && !t.Sub.hasFixed() && !t.hasLeaf("earr", "emap") {
		return "var"
	}
	return ""
}

func (t *mty) specTarget() bool {
	return !t.hasLeaf("none", "garr", "gmap", "earr", "emap")
}

func recoverBool(f func() bool) (res bool, crashed bool) {
	defer func() {
		if r := recover(); r != nil {
			crashed = true
		}
	}()
	return f(), false
}

func recoverType(f func() *parser.Type) (res string) {
	defer func() {
		if r := recover(); r != nil {
			res = "crash"
		}
	}()
	return canonGo(f())
}

func bits(bs []bool) string {
	b := make([]byte, len(bs))
	for i, x := range bs {
		if x {
			b[i] = '1'
		} else {
			b[i] = '0'
		}
	}
	return string(b)
}

func c04Matrix(cfg Config, r *Result, model, spec *Model) {
	depth := cfg.N(2, 3)
	types := c04Types(depth)
	n := len(types)
	r.Note("type matrix: %d types of depth <= %d (leaves num string bool any none EMPTY_ARRAY EMPTY_MAP GENERIC_ARRAY GENERIC_MAP, [] and {} with both Fixed values at every level), %d ordered pairs, each for Equals/accepts/matches", n, depth, n*n)
	sxs := make([]string, n)
	gos := make([]*parser.Type, n)
	for i, t := range types {
		sxs[i] = t.sx()
		gos[i] = t.goType()
	}
	all := "(" + strings.Join(sxs, " ") + ")"

	// specification side: indices of pure value types and of targets
	var specVals []int
	for i, t := range types {
		if t.specValueKind() != "" {
			specVals = append(specVals, i)
		}
	}
	specValSX := map[string]string{}
	for _, kind := range []string{"var", "const"} {
		var l []string
		for _, i := range specVals {
			if types[i].specValueKind() == kind {
				l = append(l, types[i].specSX())
			}
		}
		specValSX[kind] = "(" + strings.Join(l, " ") + ")"
	}

	for i, L := range types {
		ans, err := model.Ask("(row " + sxs[i] + " " + all + ")")
		if err != nil {
			c04Violate(r, Violation{Kind: "correspondence", Key: "model-error", Detail: err.Error()})
			return
		}
		v, err := ParseSX(ans)
		if err != nil || v.Kind != "lst" || len(v.L) != 3 {
			c04Violate(r, Violation{Kind: "correspondence", Key: "model-decode", Detail: ans, Input: sxs[i]})
			return
		}
		acc := make([]bool, n)
		mat := make([]bool, n)
		eq := make([]bool, n)
		for j := range types {
			lg, rg := gos[i], gos[j]
			a, c1 := recoverBool(func() bool { return parser.VerifAccepts(lg, rg) })
			m, c2 := recoverBool(func() bool { return parser.VerifMatches(lg, rg) })
			e, c3 := recoverBool(func() bool { return lg.Equals(rg) })
			if c1 || c2 || c3 {
				c04Violate(r, Violation{Kind: "property", Key: "matrix-go-panic", Detail: "Equals/accepts/matches panicked", Input: map[string]string{"left": sxs[i], "right": sxs[j]}})
			}
			acc[j], mat[j], eq[j] = a, m, e
			r.Count("m:"+sxs[i]+"|"+sxs[j], i != j)
		}
		for k, pair := range []struct {
			name string
			impl string
		}{{"accepts", bits(acc)}, {"matches", bits(mat)}, {"equals", bits(eq)}} {
			if pair.impl != v.L[k].S {
				for j := range types {
					if pair.impl[j] != v.L[k].S[j] {
						c04Violate(r, Violation{Kind: "correspondence", Key: "matrix-" + pair.name,
							Detail: fmt.Sprintf("%s(%s, %s): implementation %c, model %c", pair.name, sxs[i], sxs[j], pair.impl[j], v.L[k].S[j]),
							Input:  map[string]string{"fn": pair.name, "left": sxs[i], "right": sxs[j]}, Impl: string(pair.impl[j]), Model: string(v.L[k].S[j])})
						break
					}
				}
			}
		}
		r.Dist("matrix-rows")
		for j := range types {
			if acc[j] {
				r.Dist("accepts-true")
			}
			if mat[j] {
				r.Dist("matches-true")
			}
		}
		// pointer-sharing readings: the same pointer on both sides, and a right
		// operand sharing the left operand's Sub pointer
		if a, _ := recoverBool(func() bool { return parser.VerifAccepts(gos[i], gos[i]) }); a != (v.L[0].S[i] == '1') {
			c04Violate(r, Violation{Kind: "correspondence", Key: "matrix-pointer-identity", Detail: "accepts(t, t) with one shared pointer differs from the model's fresh-pointer reading", Input: sxs[i]})
		}
		if L.Sub != nil {
			for _, f := range []bool{false, true} {
				for _, k := range []string{"arr", "map"} {
					R := &mty{K: k, Fixed: f, Sub: L.Sub}
					nm := parser.ARRAY
					if k == "map" {
						nm = parser.MAP
					}
					rg := &parser.Type{Name: nm, Sub: gos[i].Sub, Fixed: f}
					a, _ := recoverBool(func() bool { return parser.VerifAccepts(gos[i], rg) })
					m, _ := recoverBool(func() bool { return parser.VerifMatches(gos[i], rg) })
					ans2, err := model.Ask("(row " + sxs[i] + " (" + R.sx() + "))")
					if err != nil {
						continue
					}
					v2, _ := ParseSX(ans2)
					if len(v2.L) == 3 && (bits([]bool{a}) != v2.L[0].S || bits([]bool{m}) != v2.L[1].S) {
						c04Violate(r, Violation{Kind: "correspondence", Key: "matrix-pointer-identity", Detail: "shared Sub pointer changes accepts/matches", Input: map[string]string{"left": sxs[i], "right": R.sx()}})
					}
					r.Count("p:"+sxs[i]+"|"+R.sx(), true)
				}
			}
		}
		// specification oracle on the pure sub-universe
		if L.specTarget() {
			for _, kind := range []string{"var", "const"} {
				ans, err := spec.Ask("(srow " + kind + " " + L.specSX() + " " + specValSX[kind] + ")")
				if err != nil {
					c04Violate(r, Violation{Kind: "correspondence", Key: "model-error", Detail: err.Error()})
					return
				}
				sv, _ := ParseSX(ans)
				p := 0
				for _, j := range specVals {
					if types[j].specValueKind() != kind {
						continue
					}
					want := sv.S[p] == '1'
					p++
					if acc[j] != want {
						c04Violate(r, Violation{Kind: "property", Key: "accepts-vs-spec-" + kind,
							Detail: fmt.Sprintf("accepts(%s, %s) = %v but the specification's Assignable(%s) says %v", sxs[i], sxs[j], acc[j], kind, want),
							Input:  map[string]string{"left": sxs[i], "right": sxs[j], "kind": kind}, Impl: acc[j], Model: want})
					}
					r.Dist("spec-assignable-cells")
				}
			}
		}
		if i < 2 {
			r.Sample(map[string]any{"left": sxs[i], "accepts": bits(acc)[:12] + "…", "against": strings.Join(sxs[:12], " ")})
		}
	}

	// unary functions
	ans, err := model.Ask("(unary " + all + ")")
	if err == nil {
		v, _ := ParseSX(ans)
		for i := range types {
			if i >= len(v.L) || len(v.L[i].L) != 3 {
				c04Violate(r, Violation{Kind: "correspondence", Key: "model-decode", Detail: "unary"})
				break
			}
			inf := recoverType(func() *parser.Type { return parser.VerifInfer(gos[i]) })
			fx := recoverType(func() *parser.Type { return parser.VerifFixedType(gos[i]) })
			str := gos[i].String()
			if inf != v.L[i].L[0].String() {
				c04Violate(r, Violation{Kind: "correspondence", Key: "unary-infer", Detail: fmt.Sprintf("infer(%s): implementation %s, model %s", sxs[i], inf, v.L[i].L[0].String()), Input: sxs[i]})
			}
			if fx != v.L[i].L[1].String() {
				c04Violate(r, Violation{Kind: "correspondence", Key: "unary-fixedType", Detail: fmt.Sprintf("fixedType(%s): implementation %s, model %s", sxs[i], fx, v.L[i].L[1].String()), Input: sxs[i]})
			}
			if str != v.L[i].L[2].S {
				c04Violate(r, Violation{Kind: "correspondence", Key: "unary-String", Detail: fmt.Sprintf("String(%s): implementation %q, model %q", sxs[i], str, v.L[i].L[2].S), Input: sxs[i]})
			}
			r.Count("u:"+sxs[i], true)
		}
	}
}

// combineTypes on pairs / triples
func c04Combine(cfg Config, r *Result, model, spec *Model) {
	t2 := c04Types(cfg.N(2, 2))
	t1 := c04Types(1)
	var lists [][]*mty
	for _, a := range t2 {
		for _, b := range t2 {
			lists = append(lists, []*mty{a, b})
		}
	}
	for _, a := range t1 {
		for _, b := range t1 {
			for _, c := range t1 {
				lists = append(lists, []*mty{a, b, c})
			}
		}
	}
	extra := cfg.N(8000, 300000)
	for i := 0; i < extra; i++ {
		n := 3 + cfg.Rng.Intn(2)
		l := make([]*mty, n)
		for k := range l {
			l[k] = t2[cfg.Rng.Intn(len(t2))]
		}
		lists = append(lists, l)
	}
	r.Note("combineTypes: all %d ordered pairs of types of depth <= 2, all %d triples of depth <= 1, %d random lists of 3-4 types of depth <= 2", len(t2)*len(t2), len(t1)*len(t1)*len(t1), extra)
	const chunk = 1500
	for st := 0; st < len(lists); st += chunk {
		en := st + chunk
		if en > len(lists) {
			en = len(lists)
		}
		var b strings.Builder
		b.WriteString("(combine (")
		for _, l := range lists[st:en] {
			b.WriteString("(")
			for k, t := range l {
				if k > 0 {
					b.WriteByte(' ')
				}
				b.WriteString(t.sx())
			}
			b.WriteString(")")
		}
		b.WriteString("))")
		ans, err := model.Ask(b.String())
		if err != nil {
			c04Violate(r, Violation{Kind: "correspondence", Key: "model-error", Detail: err.Error()})
			return
		}
		v, err := ParseSX(ans)
		if err != nil || len(v.L) != en-st {
			c04Violate(r, Violation{Kind: "correspondence", Key: "model-decode", Detail: "combine"})
			return
		}
		for k, l := range lists[st:en] {
			gl := make([]*parser.Type, len(l))
			names := make([]string, len(l))
			for i, t := range l {
				gl[i] = t.goType()
				names[i] = t.sx()
			}
			got := recoverType(func() *parser.Type { return parser.VerifCombineTypes(gl) })
			want := v.L[k].String()
			key := strings.Join(names, " ")
			r.Count("c:"+key, true)
			r.Dist(fmt.Sprintf("combine-len-%d", len(l)))
			if got != want {
				c04Violate(r, Violation{Kind: "correspondence", Key: "combine", Detail: fmt.Sprintf("combineTypes(%s): implementation %s, model %s", key, got, want), Input: names, Impl: got, Model: want})
			}
			// specification oracle: pure elements only
			pure := true
			var els []string
			for _, t := range l {
				kd := t.specValueKind()
				if kd == "" {
					pure = false
					break
				}
				els = append(els, "("+kd+" "+t.specSX()+")")
			}
			if pure && got != "crash" {
				sans, err := spec.Ask("(sjoin (" + strings.Join(els, " ") + "))")
				if err != nil {
					continue
				}
				sv, _ := ParseSX(sans)
				if len(sv.L) == 2 {
					gt := l0ParseGoString(got)
					r.Dist("spec-strictest-cells")
					if gt != sv.L[1].S {
						c04Violate(r, Violation{Kind: "property", Key: "combine-not-strictest",
							Detail: fmt.Sprintf("combineTypes(%s) = %s but the strictest common type by the specification is %s", key, gt, sv.L[1].S),
							Input:  names, Impl: gt, Model: sv.L[1].S})
					}
				}
			}
		}
	}
}

// type string ("[]{}num") of a wire-syntax type
func l0ParseGoString(wire string) string {
	v, err := ParseSX(wire)
	if err != nil {
		return wire
	}
	var f func(x SX) string
	f = func(x SX) string {
		if x.Kind == "lst" && len(x.L) == 3 {
			p := "[]"
			if x.L[0].S == "map" {
				p = "{}"
			}
			return p + f(x.L[2])
		}
		switch x.S {
		case "earr", "garr":
			return "[]"
		case "emap", "gmap":
			return "{}"
		}
		return x.S
	}
	return f(v)
}

// hasNestedEmptyConcat: the expression contains  l + r  where l is a literal with a nested untyped empty leaf ([[]]+…)
func hasNestedEmptyConcat(e *pexpr) bool {
	if e == nil {
		return false
	}
	if e.K == "bin" && e.Op == "+" && (e.Args[0].K == "arr" || e.Args[0].K == "map") && len(e.Args[0].Args) > 0 && hasEmptyLit(e.Args[0]) {
		return true
	}
	for _, a := range e.Args {
		if hasNestedEmptyConcat(a) {
			return true
		}
	}
	return false
}

func hasEmptyLit(e *pexpr) bool {
	if e == nil {
		return false
	}
	if (e.K == "arr" || e.K == "map") && len(e.Args) == 0 {
		return true
	}
	if e.K == "arr" || e.K == "map" {
		for _, a := range e.Args {
			if hasEmptyLit(a) {
				return true
			}
		}
	}
	return false
}

// concatRightHidesVariable:  l + r  where r is a composite literal that contains a variable of composite type
// below its top level and l contains none: parseBinaryExpr looks only at r's top-level Fixed flag
func concatRightHidesVariable(e *pexpr) bool {
	if e == nil {
		return false
	}
	if e.K == "bin" && e.Op == "+" && (e.Args[1].K == "arr" || e.Args[1].K == "map") && hasCompositeVar(e.Args[1]) && !hasCompositeVar(e.Args[0]) {
		return true
	}
	for _, a := range e.Args {
		if concatRightHidesVariable(a) {
			return true
		}
	}
	return false
}

func hasCompositeVar(e *pexpr) bool {
	if e == nil {
		return false
	}
	switch e.K {
	case "var", "call", "bcall":
		return e.T.K == "arr" || e.T.K == "map"
	case "loopvar":
		rng := e.Args[0]
		var t *sty
		switch rng.K {
		case "var":
			t = rng.T
		case "arr":
			return len(rng.Args) > 0 && (rng.Args[0].K == "arr" || rng.Args[0].K == "map")
		}
		if t != nil && t.K == "arr" {
			return t.Sub.K == "arr" || t.Sub.K == "map"
		}
		return false
	}
	for _, a := range e.Args {
		if hasCompositeVar(a) {
			return true
		}
	}
	return false
}

// hasEmptyRepeat: the expression contains  [] * e  (the untyped empty array repeated)
func hasEmptyRepeat(e *pexpr) bool {
	if e == nil {
		return false
	}
	if e.K == "bin" && e.Op == "*" && e.Args[0].K == "arr" && len(e.Args[0].Args) == 0 {
		return true
	}
	for _, a := range e.Args {
		if hasEmptyRepeat(a) {
			return true
		}
	}
	return false
}

// ---------------------------------------------------------------- programs

// pexpr mirrors TypesSyntax.expr
type pexpr struct {
	K    string // n s b var call bcall (built-in call: Op = name, Args = arguments) src (literal source text, argument of bcall only) arr map bin neg not group index slice dot assert
	T    *sty
	Op   string
	Args []*pexpr // operands; for slice: left, start, end (nil = omitted)
}

type sty struct {
	K   string // num string bool any arr map earr emap
	Sub *sty
}

func (t *sty) sx() string {
	if t.Sub != nil {
		return "(" + t.K + " " + t.Sub.sx() + ")"
	}
	return t.K
}

func (t *sty) src() string {
	switch t.K {
	case "arr":
		return "[]" + t.Sub.src()
	case "map":
		return "{}" + t.Sub.src()
	case "earr":
		return "[]"
	case "emap":
		return "{}"
	}
	return t.K
}

func (t *sty) depth() int {
	if t.Sub == nil {
		return 0
	}
	return 1 + t.Sub.depth()
}

func styClosed(d int) []*sty {
	out := []*sty{{K: "num"}, {K: "string"}, {K: "bool"}, {K: "any"}}
	if d == 0 {
		return out
	}
	for _, s := range styClosed(d - 1) {
		out = append(out, &sty{K: "arr", Sub: s}, &sty{K: "map", Sub: s})
	}
	return out
}

func (e *pexpr) sx() string {
	switch e.K {
	case "n", "s", "b":
		return e.K
	case "var", "call":
		return "(" + e.K + " " + e.T.sx() + ")"
	case "bcall":
		return "(bcall \"" + e.Op + "\")" // the model resolves the result type from the regenerated built-in table
	case "bin":
		return "(bin " + e.Op + " " + e.Args[0].sx() + " " + e.Args[1].sx() + ")"
	case "assert":
		return "(assert " + e.Args[0].sx() + " " + e.T.sx() + ")"
	case "slice":
		parts := []string{"slice", e.Args[0].sx()}
		for _, a := range e.Args[1:] {
			if a == nil {
				parts = append(parts, "_")
			} else {
				parts = append(parts, a.sx())
			}
		}
		return "(" + strings.Join(parts, " ") + ")"
	}
	parts := []string{e.K}
	for _, a := range e.Args {
		parts = append(parts, a.sx())
	}
	return "(" + strings.Join(parts, " ") + ")"
}

// progBuilder collects the declarations an expression needs.
type progBuilder struct {
	pre   []string
	loops []string // headers of the for loops whose variables the expression uses (outermost first)
	nvar  int
}

func zeroLit(t *sty) string {
	switch t.K {
	case "num", "any":
		return "0"
	case "string":
		return `""`
	case "bool":
		return "false"
	case "arr", "earr":
		return "[]"
	}
	return "{}"
}

func (pb *progBuilder) render(e *pexpr) string {
	switch e.K {
	case "n":
		return "1"
	case "s":
		return `"a"`
	case "b":
		return "true"
	case "var":
		pb.nvar++
		name := fmt.Sprintf("v%d", pb.nvar)
		pb.pre = append(pb.pre, name+":"+e.T.src())
		return name
	case "call":
		pb.nvar++
		name := fmt.Sprintf("c%d", pb.nvar)
		pb.pre = append(pb.pre, "func "+name+":"+e.T.src(), "    return "+zeroLit(e.T), "end")
		return name
	case "src":
		return e.Op
	case "bcall":
		parts := []string{e.Op}
		for _, a := range e.Args {
			parts = append(parts, pb.render(a))
		}
		return strings.Join(parts, " ")
	case "arr":
		parts := make([]string, len(e.Args))
		for i, a := range e.Args {
			parts[i] = pb.render(a)
		}
		return "[" + strings.Join(parts, " ") + "]"
	case "map":
		parts := make([]string, len(e.Args))
		for i, a := range e.Args {
			parts[i] = fmt.Sprintf("k%d:%s", i, pb.render(a))
		}
		return "{" + strings.Join(parts, " ") + "}"
	case "bin":
		l, r := pb.render(e.Args[0]), pb.render(e.Args[1])
		if e.Op == "and" || e.Op == "or" {
			return l + " " + e.Op + " " + r // only generated inside a group
		}
		return l + e.Op + r
	case "neg":
		return "-" + pb.render(e.Args[0])
	case "not":
		return "!" + pb.render(e.Args[0])
	case "group":
		return "(" + pb.render(e.Args[0]) + ")"
	case "loopvar":
		rng := pb.render(e.Args[0])
		pb.nvar++
		name := fmt.Sprintf("lv%d", pb.nvar)
		pb.loops = append(pb.loops, "for "+name+" := range "+rng)
		return name
	case "index":
		l := pb.render(e.Args[0])
		return l + "[" + pb.render(e.Args[1]) + "]"
	case "slice":
		l := pb.render(e.Args[0])
		s, en := "", ""
		if e.Args[1] != nil {
			s = pb.render(e.Args[1])
		}
		if e.Args[2] != nil {
			en = pb.render(e.Args[2])
		}
		return l + "[" + s + ":" + en + "]"
	case "dot":
		return pb.render(e.Args[0]) + ".k0"
	case "assert":
		return pb.render(e.Args[0]) + ".(" + e.T.src() + ")"
	}
	panic("render " + e.K)
}

type pctx struct {
	K     string // decl assign param variadic return garr gmap cond range target assigncall
	T     *sty   // expected type; for target: the ROOT variable's type
	Steps []tstepG
	More  []*pexpr // rangemore: the further operands of the range clause
	NoVar bool     // rangemore: `for range …` without loop variable
}

// tstepG: one step of an assignment target chain
type tstepG struct {
	K string // idx dot slice assert
	E *pexpr // idx: index expression; slice: start (nil = omitted)
	T *sty   // assert
}

func (st tstepG) sx() string {
	switch st.K {
	case "dot":
		return "dot"
	case "idx":
		return "(idx " + st.E.sx() + ")"
	case "slice":
		if st.E == nil {
			return "(slice _)"
		}
		return "(slice " + st.E.sx() + ")"
	}
	return "(assert " + st.T.sx() + ")"
}

func (c pctx) sx() string {
	if c.K == "rangemore" {
		parts := make([]string, len(c.More))
		for i, e := range c.More {
			parts[i] = e.sx()
		}
		return "(rangemore (" + strings.Join(parts, " ") + "))"
	}
	if c.K == "target" {
		parts := make([]string, len(c.Steps))
		for i, st := range c.Steps {
			parts[i] = st.sx()
		}
		return "(target " + c.T.sx() + " (" + strings.Join(parts, " ") + "))"
	}
	if c.T != nil {
		return "(" + c.K + " " + c.T.sx() + ")"
	}
	return c.K
}

// program text for a cell; the first printed line is the typeof observable
func c04Program(c pctx, e *pexpr) string {
	pb := &progBuilder{}
	src := pb.render(e)
	// head: declarations at top level; stmt: the statement under test and the typeof print,
	// placed inside the for loops whose variables the value uses
	var head, stmt []string
	head = append(head, pb.pre...)
	wrap := func(lines []string, indent string) []string {
		if len(pb.loops) == 0 {
			return lines
		}
		var out []string
		ind := indent
		for _, l := range pb.loops {
			out = append(out, ind+l)
			ind += "    "
		}
		for _, l := range lines {
			out = append(out, ind+l)
		}
		for i := len(pb.loops) - 1; i >= 0; i-- {
			ind = ind[:len(ind)-4]
			out = append(out, ind+"end")
		}
		return out
	}
	switch c.K {
	case "decl":
		stmt = append(stmt, "x := "+src, "print (typeof x)")
	case "assign":
		head = append(head, "t:"+c.T.src())
		stmt = append(stmt, "t = "+src, "print (typeof t)")
	case "param":
		head = append(head, "func fp p:"+c.T.src(), "    print (typeof p)", "end")
		stmt = append(stmt, "fp "+src)
	case "variadic":
		head = append(head, "func fv p:"+c.T.src()+"...", "    print (typeof p[0])", "end")
		stmt = append(stmt, "fv "+src)
	case "return":
		if len(pb.loops) == 0 {
			head = append(head, "func fr:"+c.T.src(), "    return "+src, "end")
			stmt = append(stmt, "r := fr", "print (typeof r)")
		} else {
			// the loops go inside the function; typeof is not observed (the loop may not run)
			head = append(head, "func fr:"+c.T.src())
			head = append(head, wrap([]string{"return " + src}, "    ")...)
			head = append(head, "    return "+zeroLit(c.T), "end")
			return strings.Join(append(head, "r := fr", "print \"<evy run-time: not observed>\" r"), "\n") + "\n"
		}
	case "garr":
		stmt = append(stmt, "print (join "+src+" \",\")")
	case "gmap":
		stmt = append(stmt, "print (has "+src+" \"zz\")")
	case "cond":
		stmt = append(stmt, "if "+src, "    print \"taken\"", "end")
	case "range":
		stmt = append(stmt, "for x := range "+src, "    print (typeof x)", "end")
	case "rangemore":
		ops := src
		for _, m := range c.More {
			ops += " " + pb.render(m)
		}
		head = append([]string{}, pb.pre...)
		if c.NoVar {
			stmt = append(stmt, "for range "+ops, "    print \"<evy run-time: not observed>\"", "end")
		} else {
			stmt = append(stmt, "for x := range "+ops, "    print (typeof x)", "end")
		}
	case "assigncall":
		head = append(head, "func ft:"+c.T.src(), "    return "+zeroLit(c.T), "end")
		stmt = append(stmt, "ft = "+src)
	case "target":
		// index expressions of the chain are rendered after the value (their declarations just precede the statement)
		pb2 := &progBuilder{nvar: pb.nvar + 100}
		chain := "r"
		for _, st := range c.Steps {
			switch st.K {
			case "idx":
				chain += "[" + pb2.render(st.E) + "]"
			case "dot":
				chain += ".k0"
			case "slice":
				if st.E != nil {
					chain += "[" + pb2.render(st.E) + ":]"
				} else {
					chain += "[:]"
				}
			case "assert":
				chain += ".(" + st.T.src() + ")"
			}
		}
		head = append(head, pb2.pre...)
		head = append(head, "r:"+c.T.src())
		if c.T.Sub != nil {
			head = append(head, "r = "+sampleLit(c.T))
		}
		stmt = append(stmt, chain+" = "+src, "print (typeof "+chain+")")
	}
	return strings.Join(append(head, wrap(stmt, "")...), "\n") + "\n"
}

// sampleLit: a constant literal assignable to a variable of type t in which
// index 1 and the keys "a" and k0 exist at every level
func sampleLit(t *sty) string {
	switch t.K {
	case "arr":
		x := sampleLit(t.Sub)
		return "[" + x + " " + x + "]"
	case "map":
		x := sampleLit(t.Sub)
		return "{k0:" + x + " a:" + x + "}"
	case "string":
		return `"ab"`
	case "bool":
		return "true"
	}
	return "0"
}

// ---- value forms

func lit(k string, args ...*pexpr) *pexpr { return &pexpr{K: k, Args: args} }
func evar(t *sty) *pexpr                  { return &pexpr{K: "var", T: t} }
func ecall(t *sty) *pexpr                 { return &pexpr{K: "call", T: t} }
func ebin(op string, l, r *pexpr) *pexpr  { return &pexpr{K: "bin", Op: op, Args: []*pexpr{l, r}} }

var (
	c04tNum = &sty{K: "num"}
	c04tStr = &sty{K: "string"}
	tBoo = &sty{K: "bool"}
	c04tAny = &sty{K: "any"}
)

// a constant literal whose inferred (strictest) type is t; nil if none exists
// (no constant has top-level type any)
func constLit(t *sty) *pexpr {
	switch t.K {
	case "num":
		return lit("n")
	case "string":
		return lit("s")
	case "bool":
		return lit("b")
	case "any":
		return nil
	case "arr", "map":
		if t.Sub.K == "any" {
			return lit(t.K, lit("n"), lit("s"))
		}
		s := constLit(t.Sub)
		if s == nil {
			return nil
		}
		return lit(t.K, s)
	}
	return nil
}

type valueForm struct {
	Kind string // variable | constant | empty | <extra form name>
	E    *pexpr
	Pure bool // one of the three value kinds the property statement names
}

func emptyForms(d int) []*pexpr {
	out := []*pexpr{lit("arr"), lit("map")}
	if d == 0 {
		return out
	}
	for _, s := range emptyForms(d - 1) {
		out = append(out, lit("arr", s), lit("map", s))
	}
	return out
}

// all value forms over the closed types of depth <= d
func c04ValueForms(d int, extras bool) []valueForm {
	var out []valueForm
	for _, t := range styClosed(d) {
		out = append(out, valueForm{"variable", evar(t), true})
		if c := constLit(t); c != nil {
			out = append(out, valueForm{"constant", c, true})
		}
	}
	for _, e := range emptyForms(d) {
		out = append(out, valueForm{"empty", e, true})
	}
	// constants mixing typed and empty elements
	out = append(out,
		valueForm{"constant", lit("arr", lit("arr", lit("n")), lit("arr")), true},
		valueForm{"constant", lit("arr", lit("arr"), lit("arr", lit("s"))), true},
		valueForm{"constant", lit("map", lit("arr", lit("n")), lit("arr", lit("s"))), true},
		valueForm{"constant", lit("arr", lit("map", lit("n")), lit("map", lit("arr", lit("n"), lit("n"), lit("map"))), lit("map")), true},
	)
	if !extras {
		return out
	}
	for _, t := range styClosed(d) {
		if t.K != "arr" && t.K != "map" {
			continue
		}
		c := constLit(t)
		out = append(out, valueForm{"call", ecall(t), false})
		out = append(out, valueForm{"assert", &pexpr{K: "assert", T: t, Args: []*pexpr{evar(c04tAny)}}, false})
		out = append(out, valueForm{"index-of-variable", lit("index", evar(&sty{K: "arr", Sub: t}), lit("n")), false})
		out = append(out, valueForm{"dot-of-variable", lit("dot", evar(&sty{K: "map", Sub: t})), false})
		out = append(out, valueForm{"literal-with-composite-variable", lit("arr", evar(t)), false})
		out = append(out, valueForm{"literal-with-nested-composite-variable", lit("arr", lit("map", evar(t))), false})
		if c == nil {
			continue
		}
		out = append(out, valueForm{"group-of-literal", lit("group", c), false})
		out = append(out, valueForm{"index-of-literal", lit("index", lit("arr", c), lit("n")), false})
		out = append(out, valueForm{"dot-of-literal", lit("dot", lit("map", c)), false})
		out = append(out, valueForm{"literal-then-variable", lit("arr", c, evar(t)), false})
		out = append(out, valueForm{"variable-then-literal", lit("arr", evar(t), c), false})
		out = append(out, valueForm{"literal-variable-other-literal", lit("arr", c, evar(t), otherLit(t)), false})
		out = append(out, valueForm{"variable-with-empty-literal", lit("arr", evar(t), lit(t.K)), false})
		if t.K == "arr" {
			out = append(out, valueForm{"concat-of-literals", ebin("+", c, c), false})
			out = append(out, valueForm{"concat-literal-empty", ebin("+", c, lit("arr")), false})
			out = append(out, valueForm{"concat-empty-literal", ebin("+", lit("arr"), c), false})
			out = append(out, valueForm{"concat-variable-empty", ebin("+", evar(t), lit("arr")), false})
			out = append(out, valueForm{"concat-empty-variable", ebin("+", lit("arr"), evar(t)), false})
			out = append(out, valueForm{"repeat-literal", ebin("*", c, lit("n")), false})
			out = append(out, valueForm{"slice-of-literal", &pexpr{K: "slice", Args: []*pexpr{c, lit("n"), nil}}, false})
			out = append(out, valueForm{"slice-of-variable", &pexpr{K: "slice", Args: []*pexpr{evar(t), nil, lit("n")}}, false})
		}
	}
	out = append(out,
		valueForm{"literal-with-basic-variable", lit("arr", lit("n"), evar(c04tNum)), false},
		valueForm{"literal-with-basic-variable", lit("map", evar(c04tStr)), false},
		valueForm{"literal-with-basic-variable", lit("arr", lit("arr", evar(tBoo))), false},
		valueForm{"repeat-empty", ebin("*", lit("arr"), lit("n")), false},
		valueForm{"concat-empties", ebin("+", lit("arr"), lit("arr")), false},
		valueForm{"concat-nested-empties", ebin("+", lit("arr", lit("arr")), lit("arr", lit("arr", lit("n")))), false},
		valueForm{"group-of-empty", lit("group", lit("arr")), false},
		valueForm{"group-of-empty", lit("group", lit("map")), false},
		valueForm{"group-of-empty", lit("group", lit("arr", lit("arr"))), false},
		valueForm{"slice-of-empty", &pexpr{K: "slice", Args: []*pexpr{lit("arr"), nil, nil}}, false},
		valueForm{"group-slice-of-empty", lit("group", &pexpr{K: "slice", Args: []*pexpr{lit("arr"), nil, nil}}), false},
		valueForm{"index-of-empty", lit("index", lit("arr"), lit("n")), false},
		valueForm{"call-any", ecall(c04tAny), false},
		valueForm{"constant-any-element", lit("index", lit("arr", lit("n"), lit("s")), lit("n")), false},
	)
	return out
}

// a constant literal of the same composite kind but another element type
func otherLit(t *sty) *pexpr {
	if t.Sub.K == "string" {
		return lit(t.K, lit("n"))
	}
	return lit(t.K, lit("s"))
}

type c04Verdict struct {
	V      string // accept reject crash
	Typeof string
	Why    string
}

func c04RunImpl(src string) c04Verdict {
	out := RunEvy(src, RunOpts{YieldBudget: 100000})
	switch {
	case out.Class == "parse-error":
		return c04Verdict{V: "reject", Why: c04firstLine(out.ParseErr)}
	case out.Class == "gopanic" && out.Prog == nil:
		return c04Verdict{V: "crash", Why: c04panicClass(out.GoPanic)}
	case out.Class == "gopanic":
		return c04Verdict{V: "accept", Typeof: "<run-time Go panic>", Why: c04panicClass(out.GoPanic)}
	}
	tf := "<no output>"
	if len(out.Prints) > 0 {
		tf = strings.TrimRight(out.Prints[0], "\n")
	} else if out.Class != "ok" {
		tf = "<evy run-time panic before typeof>"
	}
	return c04Verdict{V: "accept", Typeof: tf, Why: out.Class}
}

func c04firstLine(s string) string {
	if i := strings.IndexByte(s, '\n'); i >= 0 {
		return s[:i]
	}
	return s
}

func c04panicClass(msg string) string {
	switch {
	case strings.Contains(msg, "untyped array"):
		return "wrapany-untyped-array"
	case strings.Contains(msg, "untyped map"):
		return "wrapany-untyped-map"
	case strings.Contains(msg, "incompatible types"):
		return "wrapany-incompatible"
	case strings.Contains(msg, "inferrer"):
		return "group-infer-assertion"
	case strings.Contains(msg, "interface conversion"):
		return "interface-conversion"
	case strings.Contains(msg, "nil pointer"):
		return "nil-dereference"
	}
	return "other"
}

type c04Cell struct {
	Ctx  pctx
	Form valueForm
	Note string
}

func (c c04Cell) id() string { return c.Ctx.sx() + " " + c.Form.E.sx() }

func c04ExpectedTypeof(c pctx, static, shown string) string {
	switch c.K {
	case "decl", "range", "rangemore":
		return static
	case "assign", "param", "variadic", "return", "target":
		if static == "any" {
			return shown
		}
		return static
	}
	return ""
}

// one program cell: implementation vs implementation-model (correspondence)
// and implementation vs specification (property)
func c04DoCell(r *Result, model, spec *Model, cell c04Cell, exhaustiveKind string) {
	src := c04Program(cell.Ctx, cell.Form.E)
	impl := c04RunImpl(src)
	req := "(prog " + cell.Ctx.sx() + " " + cell.Form.E.sx() + ")"
	mans, err1 := model.Ask(req)
	sans, err2 := spec.Ask(req)
	if err1 != nil || err2 != nil {
		c04Violate(r, Violation{Kind: "correspondence", Key: "model-error", Detail: fmt.Sprint(err1, err2)})
		return
	}
	mv, _ := ParseSX(mans)
	sv, _ := ParseSX(sans)
	if mv.Kind != "lst" || sv.Kind != "lst" {
		c04Violate(r, Violation{Kind: "correspondence", Key: "model-decode", Detail: mans + " / " + sans, Input: req})
		return
	}
	r.Count(cell.id(), true)
	r.Dist("ctx:" + cell.Ctx.K)
	r.Dist("value:" + cell.Form.Kind)
	r.Dist("impl:" + impl.V)
	input := map[string]any{"program": src, "cell": req, "value_form": cell.Form.Kind}

	// ---- correspondence: implementation model
	mverdict := mv.L[0].S
	mtypeof := ""
	if mverdict == "accept" {
		mtypeof = c04ExpectedTypeof(cell.Ctx, mv.L[1].S, mv.L[2].S)
	}
	unobservable := strings.HasPrefix(impl.Typeof, "<evy run-time") || (impl.Typeof == "<no output>" && (cell.Ctx.K == "range" || cell.Ctx.K == "rangemore" || hasLoopVar(cell.Form.E)))
	untracked := unobservable || (mverdict == "accept" && mtypeof == "any")
	if impl.V != mverdict {
		c04Violate(r, Violation{Kind: "correspondence", Key: "program-verdict-" + cell.Ctx.K,
			Detail: fmt.Sprintf("verdict: implementation %s (%s), implementation model %s", impl.V, impl.Why, mverdict), Input: input, Impl: impl, Model: mans})
	} else if impl.V == "accept" && mtypeof != "" && !untracked && impl.Typeof != mtypeof && !strings.HasPrefix(impl.Typeof, "<run-time") {
		// the model tracks the static type; typeof shows the dynamic one
		c04Violate(r, Violation{Kind: "property", Key: "typeof-dynamic-vs-static:" + cell.Form.Kind,
			Detail: fmt.Sprintf("typeof prints %q, the static type assigned by the parser is %q", impl.Typeof, mtypeof), Input: input, Impl: impl, Model: mans})
	}
	r.Validated++

	// ---- property: specification
	sverdict := sv.L[0].S
	stypeof := ""
	if sverdict == "accept" {
		stypeof = c04ExpectedTypeof(cell.Ctx, sv.L[1].S, sv.L[2].S)
	}
	suntracked := unobservable || (sverdict == "accept" && stypeof == "any")
	switch {
	case impl.V == "crash":
		c04Violate(r, Violation{Kind: "property", Key: c04Family("parse-panic", impl.Why, cell.Form.Kind, cell.Form.E, ""),
			Detail: fmt.Sprintf("parser.Parse panics (%s); the specification says %s", impl.Why, sverdict), Input: input, Impl: impl, Model: sans})
	case strings.HasPrefix(impl.Typeof, "<run-time"):
		c04Violate(r, Violation{Kind: "property", Key: c04Family("run-time-go-panic", impl.Why, cell.Form.Kind, cell.Form.E, ""),
			Detail: fmt.Sprintf("accepted by the parser, then the evaluator panics in Go (%s); the specification says %s", impl.Why, sverdict), Input: input, Impl: impl, Model: sans})
	case impl.V != sverdict:
		c04Violate(r, Violation{Kind: "property", Key: c04Family("verdict", "spec-"+sverdict+"-impl-"+impl.V, cell.Form.Kind, cell.Form.E, ""),
			Detail: fmt.Sprintf("the specification says %s, parser.Parse says %s (%s)", sverdict, impl.V, impl.Why), Input: input, Impl: impl, Model: sans})
	case impl.V == "accept" && stypeof != "" && !suntracked && impl.Typeof != stypeof:
		c04Violate(r, Violation{Kind: "property", Key: c04Family("typeof", "vs-spec", cell.Form.Kind, cell.Form.E, impl.Typeof),
			Detail: fmt.Sprintf("typeof prints %q, the specification gives %q", impl.Typeof, stypeof), Input: input, Impl: impl, Model: sans})
	}
	if len(r.Samples) < 5 && cell.Form.Pure && cell.Ctx.K != "decl" && r.Evaluations%97 == 0 {
		r.Sample(map[string]any{"program": src, "implementation": impl, "impl_model": mans, "specification": sans})
	}
}

func c04Contexts(targets []*sty) []pctx {
	out := []pctx{{K: "decl"}, {K: "cond"}, {K: "range"}, {K: "garr"}, {K: "gmap"}}
	for _, t := range targets {
		for _, k := range []string{"assign", "param", "variadic", "return"} {
			out = append(out, pctx{K: k, T: t})
		}
	}
	return out
}

var c04Ops = []string{"+", "-", "*", "/", "%", "==", "!=", "<", ">", "<=", ">=", "and", "or"}

func c04Programs(cfg Config, r *Result, model, spec *Model) {
	d := cfg.N(1, 2)
	targets := styClosed(d)
	forms := c04ValueForms(d, true)
	ctxs := c04Contexts(targets)
	n := 0
	for _, c := range ctxs {
		for _, f := range forms {
			c04DoCell(r, model, spec, c04Cell{Ctx: c, Form: f}, "")
			n++
		}
	}
	r.Note("program cells: %d contexts (decl, cond, range, generic-array param, generic-map param, and assign/param/variadic/return x %d target types of depth <= %d) x %d value forms (variable / constant literal / empty literal for every type of depth <= %d, plus %d further forms) = %d programs, enumerated completely", len(ctxs), len(targets), d, len(forms), d, len(forms)-len(c04ValueForms(d, false)), n)

	// operator operands: every binary operator x pure operand forms of depth <= 1 (quick) / all (thorough)
	opForms := c04ValueForms(cfg.N(1, 1), false)
	m := 0
	for _, op := range c04Ops {
		for _, l := range opForms {
			for _, rr := range opForms {
				e := ebin(op, l.E, rr.E)
				if op == "and" || op == "or" {
					e = lit("group", e)
				}
				c04DoCell(r, model, spec, c04Cell{Ctx: pctx{K: "decl"}, Form: valueForm{"operands-" + l.Kind + "-" + rr.Kind, e, true}}, "")
				m++
			}
		}
	}
	for _, f := range opForms {
		for _, k := range []string{"neg", "not"} {
			c04DoCell(r, model, spec, c04Cell{Ctx: pctx{K: "decl"}, Form: valueForm{"operand-" + f.Kind, lit(k, f.E), true}}, "")
			m++
		}
		// index / slice / dot / assertion on every operand form
		for _, ix := range []*pexpr{lit("n"), lit("s"), lit("b"), evar(c04tNum), evar(c04tStr), evar(c04tAny)} {
			c04DoCell(r, model, spec, c04Cell{Ctx: pctx{K: "decl"}, Form: valueForm{"indexed-" + f.Kind, lit("index", f.E, ix), true}}, "")
			c04DoCell(r, model, spec, c04Cell{Ctx: pctx{K: "decl"}, Form: valueForm{"sliced-" + f.Kind, &pexpr{K: "slice", Args: []*pexpr{f.E, ix, nil}}, true}}, "")
			m += 2
		}
		c04DoCell(r, model, spec, c04Cell{Ctx: pctx{K: "decl"}, Form: valueForm{"sliced-" + f.Kind, &pexpr{K: "slice", Args: []*pexpr{f.E, nil, nil}}, true}}, "")
		c04DoCell(r, model, spec, c04Cell{Ctx: pctx{K: "decl"}, Form: valueForm{"dotted-" + f.Kind, lit("dot", f.E), true}}, "")
		for _, at := range []*sty{c04tNum, c04tAny, {K: "arr", Sub: c04tNum}} {
			c04DoCell(r, model, spec, c04Cell{Ctx: pctx{K: "decl"}, Form: valueForm{"asserted-" + f.Kind, &pexpr{K: "assert", T: at, Args: []*pexpr{f.E}}, true}}, "")
			m++
		}
		m += 2
	}
	r.Note("operator cells: 13 binary operators x %d x %d operand forms, 2 unary operators, index (6 index forms) / slice / dot / type assertion (3 asserted types) on each of the %d operand forms = %d programs, enumerated completely", len(opForms), len(opForms), len(opForms), m)
}

// ---------------------------------------------------------------- entry

// c04Family maps a program-level disagreement to a stable finding key: the
// defect family when the (symptom, value form) pair is one a known defect
// produces, otherwise a key naming symptom and value form.
func c04Family(symptom, why, form string, e *pexpr, shown string) string {
	if hasEmptyRepeat(e) {
		return "repeat-empty-typed-by-right-operand"
	}
	if concatRightHidesVariable(e) && (symptom == "parse-panic" || symptom == "verdict" && why == "spec-reject-impl-accept") {
		return "concat-ignores-inner-fixed-of-right-operand"
	}
	if symptom == "verdict" && why == "spec-reject-impl-accept" && strings.HasPrefix(form, "loopvar-basic:") {
		return "literal-with-variable-treated-as-constant" // [lv], {k:lv} with a loop variable of basic type
	}
	if symptom == "typeof" && (strings.HasSuffix(shown, "[]") || strings.HasSuffix(shown, "{}")) {
		return "untyped-empty-leaks-into-typeof"
	}
	// a built-in call result of basic type inside a literal, and one of composite type two literal levels down,
	// are the same unchanged-tree defect as the variable in that place (finding (f)); every other built-in call
	// form keeps its own key
	switch form {
	case "literal-with-builtin-call-basic", "literal-with-nested-builtin-call-basic",
		"literal-same-literal-then-builtin-call-basic", "literal-builtin-call-then-same-literal-basic":
		form = "literal-with-basic-variable"
	case "literal-with-nested-builtin-call-composite":
		form = "literal-with-nested-composite-variable"
	}
	mixed := map[string]bool{"literal-variable-other-literal": true, "literal-then-variable": true, "variable-then-literal": true}
	withVar := map[string]bool{"literal-with-basic-variable": true, "literal-with-nested-composite-variable": true, "literal-with-composite-variable": true}
	switch symptom {
	case "parse-panic":
		switch why {
		case "group-infer-assertion":
			return "group-infer-panic"
		case "wrapany-untyped-array", "wrapany-untyped-map":
			return "wrapany-panic:untyped-empty-nonliteral"
		case "wrapany-incompatible":
			if hasNestedEmptyConcat(e) {
				return "concat-left-biased-type"
			}
			if mixed[form] {
				return "wrapany-panic:combine-dropped-fixed"
			}
			return "wrapany-panic:convertible-nonliteral"
		}
	case "run-time-go-panic":
		if form == "repeat-empty" {
			return "repeat-empty-typed-by-right-operand"
		}
	case "verdict":
		switch {
		case form == "repeat-empty":
			return "repeat-empty-typed-by-right-operand"
		case mixed[form] || withVar[form]:
			return "literal-with-variable-treated-as-constant"
		case form == "variable-with-empty-literal":
			return "combine-not-strictest"
		case (form == "index-of-literal" || form == "dot-of-literal") && why == "spec-accept-impl-reject":
			return "constant-element-expression-treated-as-variable"
		}
	case "typeof":
		switch form {
		case "repeat-empty":
			return "repeat-empty-typed-by-right-operand"
		case "variable-with-empty-literal":
			return "combine-not-strictest"
		case "concat-nested-empties", "operands-empty-constant", "operands-empty-empty", "operands-empty-variable":
			return "concat-left-biased-type"
		}
	}
	return symptom + ":" + why + ":" + form
}

// c04Keys counts every violation key; at most one replay per key is handed to
// Result.Violate so that its global cap does not hide keys.
var c04Keys = map[string]int{}

var c04Buffer []Violation

func c04Violate(r *Result, v Violation) {
	c04Keys[v.Kind+" "+v.Key]++
	if c04Keys[v.Kind+" "+v.Key] == 1 {
		c04Buffer = append(c04Buffer, v)
	}
}

// c04Flush hands the buffered replays to the Result, keys that are not
// recorded in findings.d first, so that the Result's cap can never hide a
// new violation behind known findings.
func c04Flush(r *Result) {
	known := map[string]bool{}
	root := os.Getenv("VERIF_ROOT")
	if root == "" {
		root = "/verif"
	}
	if b, err := os.ReadFile(root + "/findings.d/C04.txt"); err == nil {
		for _, line := range strings.Split(string(b), "\n") {
			f := strings.Fields(line)
			if len(f) >= 3 && f[0] == "finding:" && strings.HasPrefix(f[2], "key=") {
				known[strings.TrimPrefix(f[2], "key=")] = true
			}
		}
	}
	sort.SliceStable(c04Buffer, func(i, j int) bool { return !known[c04Buffer[i].Key] && known[c04Buffer[j].Key] })
	for _, v := range c04Buffer {
		r.Violate(v)
	}
	c04Buffer = nil
}

func runC04(cfg Config, r *Result) {
	r.Rule = "a case is a cell: (function, left type, right type) of the type matrix, a type list for combineTypes, or a (context, value form) program; " +
		"distinct = distinct canonical cell; non-trivial = left and right differ (matrix) / every list and program cell"
	model, err := StartModel("types")
	if err != nil {
		c04Violate(r, Violation{Kind: "correspondence", Key: "model-start", Detail: err.Error()})
		return
	}
	defer model.Close()
	spec, err := StartModel("typespec")
	if err != nil {
		c04Violate(r, Violation{Kind: "correspondence", Key: "model-start", Detail: err.Error()})
		return
	}
	defer spec.Close()

	defer c04Flush(r)
	if cfg.Replay != "" {
		c04Replay(cfg, r, model, spec)
		return
	}
	c04Corpus(r, model, spec)
	c04Matrix(cfg, r, model, spec)
	c04Combine(cfg, r, model, spec)
	c04Programs(cfg, r, model, spec)
	c04Targets(cfg, r, model, spec)
	c04LoopVars(cfg, r, model, spec)
	c04RangeForms(cfg, r, model, spec)
	c04BuiltinCalls(cfg, r, model, spec)
	r.Exhaustive = true
	ks := make([]string, 0, len(c04Keys))
	for k, n := range c04Keys {
		ks = append(ks, fmt.Sprintf("%s x%d", k, n))
	}
	sort.Strings(ks)
	r.Note("violation keys seen (%d): %s", len(ks), strings.Join(ks, "; "))
}

// corpus: witnesses of the _refuted lemmas, replayed on the implementation
func c04Corpus(r *Result, model, spec *Model) {
	cases := []struct {
		name string
		src  string
		key  string
	}{
		{"combine-drops-fixed", "x := [1]\narr := [[2] x [\"a\"]]\nprint arr\n", "wrapany-panic:combine-dropped-fixed"},
		{"empty-repetition", "x := [] * 3\ny := x + 1\nprint y\n", "repeat-empty-typed-by-right-operand"},
		{"concat-into-any-array", "a:[]any\na = [1] + [2]\nprint a\n", "wrapany-panic:convertible-nonliteral"},
		{"concat-nested-empty-into-string-arrays", "t:[][]string\nt = [[]]+[[1]]\nprint t\n", "concat-left-biased-type"},
		{"concat-right-operand-hides-variable", "nums := [1]\na:[][]any\na = [[1]] + [nums]\nprint a\n", "concat-ignores-inner-fixed-of-right-operand"},
		{"call-result-into-any-array", "func f:[]num\n    return [1]\nend\na:[]any\na = f\nprint a\n", "wrapany-panic:convertible-nonliteral"},
		{"slice-of-empty-declared", "x := [][:]\nprint x\n", "wrapany-panic:untyped-empty-nonliteral"},
		{"typeof-group-slice-empty", "print (typeof ([][:]))\n", "group-infer-panic"},
	}
	for _, c := range cases {
		v := c04RunImpl(c.src)
		r.Count("corpus:"+c.name, true)
		r.Dist("corpus")
		if v.V == "crash" {
			c04Violate(r, Violation{Kind: "property", Key: c.key, Detail: "parser.Parse panics: " + v.Why, Input: map[string]any{"program": c.src}, Impl: v})
		} else if strings.HasPrefix(v.Typeof, "<run-time") {
			c04Violate(r, Violation{Kind: "property", Key: c.key, Detail: "accepted, then the evaluator panics in Go: " + v.Why, Input: map[string]any{"program": c.src}, Impl: v})
		}
	}
}

func c04Replay(cfg Config, r *Result, model, spec *Model) {
	b, err := os.ReadFile(cfg.Replay)
	if err != nil {
		r.Note("replay: %v", err)
		return
	}
	var rep struct {
		Input json.RawMessage `json:"input"`
	}
	if err := json.Unmarshal(b, &rep); err != nil {
		r.Note("replay: %v", err)
		return
	}
	var in map[string]any
	if err := json.Unmarshal(rep.Input, &in); err == nil {
		if p, ok := in["program"].(string); ok {
			v := c04RunImpl(p)
			r.Count("replay", true)
			r.Note("replay program verdict: %s typeof=%q why=%s", v.V, v.Typeof, v.Why)
			if cell, ok := in["cell"].(string); ok {
				m, _ := model.Ask(cell)
				s, _ := spec.Ask(cell)
				r.Note("implementation model: %s; specification: %s", m, s)
				sv, _ := ParseSX(s)
				if len(sv.L) > 0 && (sv.L[0].S != v.V) {
					c04Violate(r, Violation{Kind: "property", Key: "replay", Detail: "verdict differs from the specification", Input: in, Impl: v, Model: s})
				}
			} else if v.V == "crash" || strings.HasPrefix(v.Typeof, "<run-time") {
				c04Violate(r, Violation{Kind: "property", Key: "replay", Detail: "Go panic", Input: in, Impl: v})
			}
			return
		}
		if fn, ok := in["fn"].(string); ok {
			l, _ := in["left"].(string)
			rr, _ := in["right"].(string)
			ans, _ := model.Ask("(row " + l + " (" + rr + "))")
			r.Note("replay %s(%s, %s): model row %s", fn, l, rr, ans)
			r.Count("replay", true)
			return
		}
	}
	r.Note("replay: unsupported input shape")
}

// ---------------------------------------------------------------- assignment targets

// elemAfter: the spec-level type after a legal step, nil if the step is not a target step
func elemAfter(t *sty, st tstepG) *sty {
	switch st.K {
	case "idx":
		if t.K == "arr" && st.E.K == "n" || t.K == "arr" && st.E.K == "var" && st.E.T.K == "num" {
			return t.Sub
		}
		if t.K == "map" && (st.E.K == "s" || st.E.K == "var" && st.E.T.K == "string") {
			return t.Sub
		}
	case "dot":
		if t.K == "map" {
			return t.Sub
		}
	}
	return nil
}

type targetChain struct {
	Steps []tstepG
	T     *sty   // type of the target when every step is legal, else nil
	Class string // legal | string-index | slice | assertion | wrong-index-type | not-indexable | dot-on-non-map
}

func stepClass(t *sty, st tstepG) string {
	switch st.K {
	case "slice":
		return "slice"
	case "assert":
		return "assertion"
	case "dot":
		return "dot-on-non-map"
	}
	switch t.K {
	case "string":
		return "string-index"
	case "arr", "map":
		return "wrong-index-type"
	}
	return "not-indexable"
}

// all chains of at most maxLen steps from root: every step alphabet entry is tried at every legal prefix;
// a chain ends at its first illegal step
func c04Chains(root *sty, maxLen int, rich bool) []targetChain {
	alphabet := []tstepG{
		{K: "idx", E: lit("n")}, {K: "idx", E: lit("s")}, {K: "idx", E: lit("b")}, {K: "dot"},
		{K: "slice", E: lit("n")}, {K: "slice"}, {K: "assert", T: c04tNum},
	}
	if rich {
		alphabet = append(alphabet, tstepG{K: "idx", E: evar(c04tNum)}, tstepG{K: "idx", E: evar(c04tStr)}, tstepG{K: "idx", E: evar(c04tAny)})
	}
	out := []targetChain{{Steps: nil, T: root, Class: "legal"}}
	var walk func(prefix []tstepG, t *sty)
	walk = func(prefix []tstepG, t *sty) {
		if len(prefix) >= maxLen {
			return
		}
		for _, st := range alphabet {
			steps := append(append([]tstepG{}, prefix...), st)
			if nt := elemAfter(t, st); nt != nil {
				out = append(out, targetChain{Steps: steps, T: nt, Class: "legal"})
				walk(steps, nt)
			} else {
				out = append(out, targetChain{Steps: steps, Class: stepClass(t, st)})
			}
		}
	}
	walk(nil, root)
	return out
}

func c04Targets(cfg Config, r *Result, model, spec *Model) {
	roots := styClosed(cfg.N(2, 3))
	n, nLegal := 0, 0
	classes := map[string]int{}
	for _, root := range roots {
		for _, ch := range c04Chains(root, 3, root.depth() <= 1) {
			var values []valueForm
			if ch.T != nil {
				nLegal++
				values = append(values, valueForm{"variable", evar(ch.T), true})
				if c := constLit(ch.T); c != nil {
					values = append(values, valueForm{"constant", c, true})
				}
				values = append(values,
					valueForm{"constant", lit("n"), true}, valueForm{"constant", lit("s"), true},
					valueForm{"empty", lit("arr"), true}, valueForm{"empty", lit("map"), true},
					valueForm{"variable", evar(c04tAny), true}, valueForm{"variable", evar(c04tNum), true},
					valueForm{"constant", lit("arr", lit("n")), true})
			} else {
				values = []valueForm{{"constant", lit("s"), true}, {"variable", evar(c04tAny), true}}
			}
			for _, v := range values {
				v.Kind = "target-" + ch.Class + ":" + v.Kind
				c04DoCell(r, model, spec, c04Cell{Ctx: pctx{K: "target", T: root, Steps: ch.Steps}, Form: v}, "")
				n++
			}
			classes[ch.Class]++
		}
		c04DoCell(r, model, spec, c04Cell{Ctx: pctx{K: "assigncall", T: root}, Form: valueForm{"target-call:constant", lit("n"), true}}, "")
		n++
	}
	cl := []string{}
	for _, k := range sortedKeys(classes) {
		cl = append(cl, fmt.Sprintf("%s %d", k, classes[k]))
	}
	r.Note("assignment targets: %d root types of depth <= %d x every chain of <= 3 steps over {[num] [string] [bool] .field [n:] [:] .(num), and variable indices for shallow roots} that is legal up to its last step (%s) x value forms (9 for a legal target, 2 otherwise) + a function name as target = %d programs, enumerated completely", len(roots), cfg.N(2, 3), strings.Join(cl, ", "), n)
}

// ---------------------------------------------------------------- loop variables

func hasLoopVar(e *pexpr) bool {
	if e == nil {
		return false
	}
	if e.K == "loopvar" {
		return true
	}
	for _, a := range e.Args {
		if hasLoopVar(a) {
			return true
		}
	}
	return false
}

func eloop(rng *pexpr) *pexpr { return &pexpr{K: "loopvar", Args: []*pexpr{rng}} }

// element type of a range over t (nil: not iterable)
func rangeElem(t *sty) *sty {
	switch t.K {
	case "arr":
		return t.Sub
	case "map", "string":
		return c04tStr
	case "num":
		return c04tNum
	}
	return nil
}

// c04LoopVars: the loop variable's type and its variable-ness, observed through the value-form contexts
func c04LoopVars(cfg Config, r *Result, model, spec *Model) {
	iterables := []*sty{c04tStr, c04tNum}
	for _, t := range styClosed(cfg.N(2, 3)) {
		if t.K == "arr" || t.K == "map" {
			iterables = append(iterables, t)
		}
	}
	anyTargets := func(el *sty) []*sty {
		ts := []*sty{el, c04tAny, {K: "arr", Sub: c04tAny}, {K: "map", Sub: c04tAny},
			{K: "arr", Sub: &sty{K: "arr", Sub: c04tAny}}, {K: "arr", Sub: &sty{K: "map", Sub: c04tAny}},
			{K: "map", Sub: &sty{K: "arr", Sub: c04tAny}}, {K: "arr", Sub: el}, {K: "map", Sub: el}}
		return ts
	}
	n := 0
	for _, it := range iterables {
		el := rangeElem(it)
		class := "basic"
		if el.K == "arr" || el.K == "map" {
			class = "composite"
		}
		operands := []*pexpr{evar(it)}
		if c := constLit(it); c != nil && it.K != "num" {
			operands = append(operands, c)
		}
		for oi, op := range operands {
			lv := func() *pexpr { return eloop(op) }
			sibling := lit("s")
			if el.K == "string" {
				sibling = lit("n")
			}
			if el.K == "arr" || el.K == "map" {
				sibling = otherLit(el)
			}
			forms := []valueForm{
				{"loopvar-" + class + ":lv", lv(), true},
				{"loopvar-" + class + ":[lv]", lit("arr", lv()), false},
				{"loopvar-" + class + ":{k:lv}", lit("map", lv()), false},
				{"loopvar-" + class + ":[lv sibling]", lit("arr", lv(), sibling), false},
				{"loopvar-" + class + ":[sibling lv]", lit("arr", sibling, lv()), false},
			}
			if el.K == "arr" {
				if c := constLit(el); c != nil {
					forms = append(forms,
						valueForm{"loopvar-" + class + ":lv+lit", ebin("+", lv(), c), false},
						valueForm{"loopvar-" + class + ":lit+lv", ebin("+", c, lv()), false},
						valueForm{"loopvar-" + class + ":[lit]+[lv]", ebin("+", lit("arr", c), lit("arr", lv())), false})
				}
			}
			ctxs := []pctx{{K: "decl"}}
			for ti, t := range anyTargets(el) {
				ctxs = append(ctxs, pctx{K: "assign", T: t}, pctx{K: "param", T: t})
				if ti < 4 && oi == 0 {
					ctxs = append(ctxs, pctx{K: "variadic", T: t}, pctx{K: "return", T: t})
				}
			}
			for _, c := range ctxs {
				for _, f := range forms {
					c04DoCell(r, model, spec, c04Cell{Ctx: c, Form: f}, "")
					n++
				}
			}
		}
	}
	// the same concatenation shape with an ordinary variable (unchanged-tree defect: inner Fixed flag of the right operand ignored)
	for _, el := range []*sty{{K: "arr", Sub: c04tNum}, {K: "arr", Sub: c04tStr}, {K: "map", Sub: c04tNum}} {
		c := constLit(el)
		e := ebin("+", lit("arr", c), lit("arr", evar(el)))
		for _, t := range []*sty{{K: "arr", Sub: &sty{K: el.K, Sub: c04tAny}}, {K: "arr", Sub: c04tAny}, {K: "arr", Sub: el}, c04tAny} {
			c04DoCell(r, model, spec, c04Cell{Ctx: pctx{K: "assign", T: t}, Form: valueForm{"concat-literal-with-literal-of-variable", e, false}}, "")
			n++
		}
	}
	r.Note("loop variables: %d iterable types (string, num, every array and map type of depth <= %d), ranged over as a variable and as a constant literal; the loop variable used as lv, [lv], {k:lv}, [lv sibling], [sibling lv], lv+lit, lit+lv, [lit]+[lv] in decl and assign/param(/variadic/return) against the element type, any, []any, {}any, [][]any, []{}any, {}[]any, []elem, {}elem = %d programs, enumerated completely", len(iterables), cfg.N(2, 3), n)
}

// ---------------------------------------------------------------- numeric range forms

// c04RangeForms: for [x :=] range e1 [e2 [e3 [e4]]] — every operand position crossed with every type of
// depth <= 1 as a variable, and with the constants, with and without loop variable
func c04RangeForms(cfg Config, r *Result, model, spec *Model) {
	var operands []valueForm
	for _, t := range styClosed(1) {
		operands = append(operands, valueForm{"variable", evar(t), true})
	}
	operands = append(operands, valueForm{"constant", lit("n"), true}, valueForm{"constant", lit("s"), true},
		valueForm{"constant", lit("b"), true}, valueForm{"constant", lit("arr", lit("n")), true},
		valueForm{"empty", lit("arr"), true}, valueForm{"empty", lit("map"), true})
	num := []*pexpr{lit("n"), evar(c04tNum)}
	n := 0
	run := func(first valueForm, more []*pexpr, label string) {
		for _, novar := range []bool{false, true} {
			f := first
			f.Kind = "range-" + label + ":" + first.Kind
			c04DoCell(r, model, spec, c04Cell{Ctx: pctx{K: "rangemore", More: more, NoVar: novar}, Form: f}, "")
			n++
		}
	}
	for _, o := range operands {
		// one operand
		run(o, nil, "1")
		// two operands: o in position 1 or 2, the other a num; and both arbitrary
		for _, k := range num {
			run(o, []*pexpr{k}, "2-pos1")
			run(valueForm{o.Kind, k, true}, []*pexpr{o.E}, "2-pos2")
			// three operands: o in each position
			for _, k2 := range num {
				run(o, []*pexpr{k, k2}, "3-pos1")
				run(valueForm{o.Kind, k, true}, []*pexpr{o.E, k2}, "3-pos2")
				run(valueForm{o.Kind, k, true}, []*pexpr{k2, o.E}, "3-pos3")
			}
			// four operands: always rejected
			run(o, []*pexpr{k, k, k}, "4-pos1")
			run(valueForm{o.Kind, k, true}, []*pexpr{k, k, o.E}, "4-pos4")
		}
		for _, o2 := range operands {
			run(o, []*pexpr{o2.E}, "2-any")
			run(valueForm{o.Kind, lit("n"), true}, []*pexpr{o.E, o2.E}, "3-any23")
		}
	}
	r.Note("range clause: 1, 2, 3 and 4 operands; each operand position crossed with %d operand forms (a variable of every type of depth <= 1, the constants 1 \"a\" true [1], the empty literals) against num constants/variables in the other positions, all pairs in positions (1,2) and (2,3), with and without loop variable = %d programs, enumerated completely", len(operands), n)
}
