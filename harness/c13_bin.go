package main

import (
	"bytes"
	"context"
	"fmt"
	"math"
	"os"
	"os/exec"
	"path/filepath"
	"strings"
	"time"
)

// The real `evy run` binary (built into a temporary directory): exit status,
// stdout and stderr for exit / panic / test programs, compared with the model
// (run_program + cli_status: Go's int(n), then what the OS reports: mod 256).

func buildEvy(dir string) (string, error) {
	bin := filepath.Join(dir, "evy")
	cmd := exec.Command("go", "build", "-o", bin, ".")
	cmd.Dir = c13repoRoot()
	cmd.Env = append(os.Environ(), "GOFLAGS=-mod=mod", "GOPROXY=off", "GOSUMDB=off", "GOTOOLCHAIN=local", "CGO_ENABLED=0")
	if out, err := cmd.CombinedOutput(); err != nil {
		return "", fmt.Errorf("go build evy: %v: %s", err, out)
	}
	return bin, nil
}

type binResult struct {
	Status int
	Stdout string
	Stderr string
	Timeout bool
}

// runEvyBin runs the program through the built binary; a run that does not finish within 10 s is repeated once
// with 60 s (on a loaded machine process start alone has taken longer than 10 s), and only a second timeout counts.
func runEvyBin(bin, src string, stdin string, flags ...string) binResult {
	res := runEvyBinT(10*time.Second, bin, src, stdin, flags...)
	if res.Timeout {
		res = runEvyBinT(60*time.Second, bin, src, stdin, flags...)
	}
	return res
}

func runEvyBinT(limit time.Duration, bin, src string, stdin string, flags ...string) binResult {
	dir := filepath.Dir(bin)
	file := filepath.Join(dir, "prog.evy")
	os.WriteFile(file, []byte(src), 0o644)
	ctx, cancel := context.WithTimeout(context.Background(), limit)
	defer cancel()
	args := append([]string{"run", "--skip-sleep"}, flags...)
	args = append(args, file)
	cmd := exec.CommandContext(ctx, bin, args...)
	cmd.Stdin = strings.NewReader(stdin)
	var so, se bytes.Buffer
	cmd.Stdout, cmd.Stderr = &so, &se
	cmd.Env = append(os.Environ(), "TERM=dumb")
	err := cmd.Run()
	res := binResult{Stdout: so.String(), Stderr: se.String()}
	if ctx.Err() != nil {
		res.Timeout = true
		res.Status = -1
		return res
	}
	if ee, ok := err.(*exec.ExitError); ok {
		res.Status = ee.ExitCode()
	} else if err != nil {
		res.Status = -2
	}
	return res
}

func c13BinCases(cfg Config) []*c13Case {
	call := func(name string, args ...cVal) cCall { return cCall{Name: name, Args: args} }
	var cs []*c13Case
	for _, n := range []float64{0, 1, 2, 3, 42, 255, 256, 257, 511, 512, -1, -2, -255, -256, -257, 0.5, 0.99, -0.5, 1.5, 255.9, 1e10, 4294967296 + 7, 1e30, -1e30,
		9223372036854775807, 9223372036854775808, -9223372036854775808, -9223372036854777856, math.NaN(), math.Inf(1), math.Inf(-1), math.Copysign(0, -1), 5e-324} {
		cs = append(cs, &c13Case{Origin: "bin-exit", Calls: []cCall{call("print", vStr("before")), call("exit", vNum(n)), call("print", vStr("after"))}})
	}
	cs = append(cs,
		&c13Case{Origin: "bin-panic", Calls: []cCall{call("print", vStr("x")), call("panic", vStr("boom")), call("print", vStr("after"))}},
		&c13Case{Origin: "bin-panic", Calls: []cCall{call("panic", vStr(""))}},
		&c13Case{Origin: "bin-panic", Calls: []cCall{call("panic", vStr("ünï\ncode"))}},
		&c13Case{Origin: "bin-test", Calls: []cCall{call("test", vBool(true))}},
		&c13Case{Origin: "bin-test", Calls: []cCall{call("test", vBool(true)), call("test", vNum(1), vNum(1))}},
		&c13Case{Origin: "bin-test", Calls: []cCall{call("test", vBool(false))}},
		&c13Case{Origin: "bin-test", Calls: []cCall{call("test", vBool(false)), call("test", vBool(true)), call("test", vNum(1), vNum(2), vStr("m"))}},
		&c13Case{Origin: "bin-test", FailFast: true, Calls: []cCall{call("test", vBool(true)), call("test", vBool(false)), call("test", vBool(false)), call("print", vStr("after"))}},
		&c13Case{Origin: "bin-test", NoSummary: true, Calls: []cCall{call("test", vBool(true)), call("test", vBool(false))}},
		&c13Case{Origin: "bin-test", NoSummary: true, Calls: []cCall{call("test", vBool(true))}},
		&c13Case{Origin: "bin-test", Calls: []cCall{call("test", vBool(false)), call("exit", vNum(0))}},
		&c13Case{Origin: "bin-test", Calls: []cCall{call("test", vBool(false)), call("exit", vNum(7))}},
		&c13Case{Origin: "bin-test", Calls: []cCall{call("test", vBool(false)), call("panic", vStr("p"))}},
		&c13Case{Origin: "bin-test", Calls: []cCall{call("test", vNum(1), vNum(2), vNum(3))}},
		&c13Case{Origin: "bin-test-message", Calls: []cCall{call("test", vNum(100), vNum(90), vStr("score below 100% of target"))}},
		&c13Case{Origin: "bin-test-message", Calls: []cCall{call("test", vNum(1), vNum(2), vStr("%v %d %%")), call("test", vNum(1), vNum(2), vStr("trailing %")), call("test", vNum(1), vNum(2), vStr("val is %v%%"), vNum(2))}},
		&c13Case{Origin: "bin-test-message", FailFast: true, Calls: []cCall{call("test", vStr("a"), vStr("b"), vStr("%")), call("test", vBool(false))}},
		&c13Case{Origin: "bin-test", Calls: []cCall{call("test")}},
		&c13Case{Origin: "bin-badargs", Calls: []cCall{call("printf")}},
		&c13Case{Origin: "bin-badargs", Calls: []cCall{call("len", vNum(1))}},
		&c13Case{Origin: "bin-badargs", Calls: []cCall{call("rand", vNum(0))}},
		&c13Case{Origin: "bin-rand-nan", Calls: []cCall{call("rand", vNum(math.NaN()))}},
		&c13Case{Origin: "bin-read", Inputs: []string{"Mary Jackson"}, Calls: []cCall{call("read"), call("print", vStr("ok"))}},
		&c13Case{Origin: "bin-read-eof", Calls: []cCall{call("read"), call("print", vStr("ok"))}},
		&c13Case{Origin: "bin-ok", Calls: []cCall{call("print", vNum(1), vStr("é"), vArr(tyNum, vNum(1), vNum(2)))}},
	)
	n := cfg.N(40, 300)
	for i := 0; i < n; i++ {
		c := &c13Case{Origin: "bin-random"}
		c.FailFast = cfg.Rng.Intn(3) == 0
		c.NoSummary = cfg.Rng.Intn(4) == 0
		k := cfg.Rng.Intn(5)
		for j := 0; j < k; j++ {
			if cfg.Rng.Intn(4) == 0 {
				c.Calls = append(c.Calls, cCall{Name: "print", Args: []cVal{genBasic(cfg.Rng)}})
			} else {
				c.Calls = append(c.Calls, genTestCall(cfg.Rng))
			}
		}
		if cfg.Rng.Intn(2) == 0 {
			c.Calls = append(c.Calls, genStopCall(cfg.Rng))
		}
		cs = append(cs, c)
	}
	return cs
}

func c13Binary(cfg Config, model *Model, r *Result) {
	dir, err := os.MkdirTemp("", "c13-evy-")
	if err != nil {
		r.Violate(Violation{Kind: "correspondence", Key: "bin-tempdir", Detail: err.Error()})
		return
	}
	defer os.RemoveAll(dir)
	bin, err := buildEvy(dir)
	if err != nil {
		r.Violate(Violation{Kind: "correspondence", Key: "bin-build", Detail: err.Error()})
		return
	}
	for _, c := range c13BinCases(cfg) {
		src := c.Render()
		r.Count("bin:"+c.SX().String(), true)
		r.Dist("binary:" + c.Origin)
		flags := []string{}
		if c.FailFast {
			flags = append(flags, "--fail-fast")
		}
		if c.NoSummary {
			flags = append(flags, "--no-test-summary")
		}
		stdin := ""
		for _, l := range c.Inputs {
			stdin += l + "\n"
		}
		res := runEvyBin(bin, src, stdin, flags...)
		r.Validated++
		in := c13Input(c, src)
		in["flags"] = flags
		in["stdin"] = stdin
		implDesc := map[string]any{"status": res.Status, "stdout": res.Stdout, "stderr": res.Stderr}
		if res.Timeout {
			r.Violate(Violation{Kind: "property", Key: "bin-timeout:" + c.Origin, Detail: "evy run did not finish within 10 s nor, repeated, within 60 s", Input: in})
			continue
		}
		// host crash: Go's runtime prints a goroutine trace and exits with status 2
		if res.Status == 2 && strings.Contains(res.Stderr, "goroutine ") {
			key := "host-panic:bin"
			switch c.Origin {
			case "bin-rand-nan":
				key = "rand-nan-host-panic"
			case "bin-read-eof":
				key = "read-eof-host-panic"
			}
			r.Violate(Violation{Kind: "property", Key: key,
				Detail: "`evy run` crashed with a Go panic (goroutine trace, status 2) instead of a documented evy panic or result", Input: in, Impl: implDesc})
			continue
		}
		mobs, mx, err := c13Model(c, model)
		if err != nil {
			r.Violate(Violation{Kind: "correspondence", Key: "model-crash", Detail: err.Error(), Input: in})
			continue
		}
		if mobs.Class == "unsupported" {
			r.Dist("model-unsupported")
			continue
		}
		wantStatus := 0
		fmt.Sscanf(mx.L[2].S, "%d", &wantStatus)
		wantOut := ""
		for _, e := range mobs.Effects {
			if strings.HasPrefix(e, "print:") {
				wantOut += e[len("print:"):]
			}
		}
		wantErrEmpty := mobs.Class == "ok" || mobs.Class == "exit"
		modelDesc := map[string]any{"status": wantStatus, "stdout": wantOut, "stderr_empty": wantErrEmpty, "class": mobs.Class}
		switch {
		case res.Status != wantStatus:
			r.Violate(Violation{Kind: "property", Key: "bin-exit-status:" + c.Origin,
				Detail: fmt.Sprintf("exit status of `evy run` is %d, the model of exit/panic/test + handleEvyErr says %d", res.Status, wantStatus), Input: in, Impl: implDesc, Model: modelDesc})
		case res.Stdout != wantOut:
			r.Violate(Violation{Kind: "property", Key: "bin-stdout:" + c.Origin, Detail: "stdout of `evy run` differs from the model's prints + test summary", Input: in, Impl: implDesc, Model: modelDesc})
		case (res.Stderr == "") != wantErrEmpty:
			r.Violate(Violation{Kind: "property", Key: "bin-stderr:" + c.Origin, Detail: "stderr of `evy run` is empty/non-empty against the model's class", Input: in, Impl: implDesc, Model: modelDesc})
		}
		// the text of the failed tests on stderr (positions stripped)
		if mobs.Class == "test" && res.Status == wantStatus && stripPositions(res.Stderr) != mobs.FailText+"\n" {
			r.Violate(Violation{Kind: "property", Key: "bin-test-messages:" + c.Origin,
				Detail: "the failed-test messages `evy run` prints on stderr differ from the model's (want != got: repr want != repr got, then the message: verbatim with 3 arguments, formatted with 4 or more)",
				Input:  in, Impl: implDesc, Model: map[string]any{"stderr": mobs.FailText + "\n"}})
		}
		// documented texts
		for i, call := range c.Calls {
			if call.Name == "panic" && i < len(mobs.Calls) && strings.HasPrefix(mobs.Calls[i], "stop:panic:user") && call.Args[0].K == "str" {
				if !strings.Contains(res.Stderr, call.Args[0].S) || res.Status != 1 {
					r.Violate(Violation{Kind: "property", Key: "bin-panic-message", Detail: "panic must print its message and exit with status 1", Input: in, Impl: implDesc})
				}
			}
		}
	}
}
