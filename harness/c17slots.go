package main

import (
	"fmt"
	"math/rand"
	"sort"
	"strings"
	"time"
)

// C17, stream "slots": the last sentence of the property on COMPILED PROGRAMS —
// "two variables that are alive at the same time never share a storage slot".
//
// The symbol-table histories of c17.go exercise SymbolTable alone; which
// Push/Pop/Define the COMPILER issues for a program (one scope per block, the
// loop variable defined in the table around the loop) is not part of them, and
// wf_check / linit_check / sp accept a program whose live variables share a
// slot. This stream observes sharing through its only effect: interference.
//
// A program is generated as a tree over variables with unique identities and
// printed twice: P with deliberately colliding names (an inner `:=` variable or
// loop variable takes the name of a visible outer variable, of a dead variable
// of a sibling block, or a new name) and P' with one name per variable. The
// language resolves names lexically, so P and P' are the same program up to
// alpha-renaming (checked on the real evaluator: both runs must record the same
// trace). With one name per variable no Define ever meets an existing symbol,
// so in P' nothing can be shared through a name. Every variable is read into a
// global trace array whenever it is accessible — in particular after every
// nested construct closed — so a store through a shared slot shows as a
// different trace: VM(P) must record the same trace as VM(P').
//
// Known divergence (findings.d: vm-loopvar-clobbers-outer): the compiler defines
// a loop variable in the table of the block B around the loop, so a variable of
// the same name that was visible at the loop and is referenced again INSIDE B
// after the loop is clobbered / shadowed. The generator knows this shape
// exactly (slFrame.poison) and keeps it out of 9 of 10 programs; in the tenth it
// is allowed and a difference is reported under the known key.

type slVar struct {
	id    int
	pname string // name in P
	uname string // name in P'
	typ   string // num | string
	seq   int    // declaration time
	ro    bool   // loop variable
	frame *slFrame
}

type slFrame struct {
	vars   []*slVar
	poison map[string]int // name -> time a loop with that loop-variable name ended directly in this block
	kind   string
}

type slGen struct {
	rng        *rand.Rand
	p, u       strings.Builder
	frames     []*slFrame
	seq        int
	nvars      int
	nwhile     int
	stmts      int
	maxDepth   int
	allowKnown bool
	known      bool // a reference of the known shape was emitted
	used       []string
	feat       map[string]int
}

func (g *slGen) tick() int { g.seq++; return g.seq }

// emit writes one line to both programs; parts are strings or *slVar.
func (g *slGen) emit(ind int, parts ...any) {
	pad := strings.Repeat("    ", ind)
	g.p.WriteString(pad)
	g.u.WriteString(pad)
	for _, x := range parts {
		switch x := x.(type) {
		case string:
			g.p.WriteString(x)
			g.u.WriteString(x)
		case *slVar:
			g.p.WriteString(x.pname)
			g.u.WriteString(x.uname)
		}
	}
	g.p.WriteByte('\n')
	g.u.WriteByte('\n')
}

func (g *slGen) top() *slFrame { return g.frames[len(g.frames)-1] }

func (g *slGen) push(kind string) {
	g.frames = append(g.frames, &slFrame{poison: map[string]int{}, kind: kind})
}
func (g *slGen) pop() { g.frames = g.frames[:len(g.frames)-1] }

// lookup resolves a name as the language does: innermost block first, the
// latest declaration of a block wins (a block has at most one per name).
func (g *slGen) lookup(name string) *slVar {
	for i := len(g.frames) - 1; i >= 0; i-- {
		vs := g.frames[i].vars
		for j := len(vs) - 1; j >= 0; j-- {
			if vs[j].pname == name {
				return vs[j]
			}
		}
	}
	return nil
}

// knownShape: v was visible when a loop with a loop variable of v's name ended
// directly in a block that is still open and lies at or below v's own block.
func (g *slGen) knownShape(v *slVar) bool {
	at := -1
	for i, f := range g.frames {
		if f == v.frame {
			at = i
		}
	}
	for i := at; i >= 0 && i < len(g.frames); i++ {
		if t, ok := g.frames[i].poison[v.pname]; ok && t > v.seq {
			return true
		}
	}
	return false
}

// accessible: the variables a statement at this point may mention (in P the
// name must resolve to the variable itself).
func (g *slGen) accessible() []*slVar {
	var out []*slVar
	for _, f := range g.frames {
		for _, v := range f.vars {
			if g.lookup(v.pname) != v {
				continue
			}
			if g.knownShape(v) && !g.allowKnown {
				continue
			}
			out = append(out, v)
		}
	}
	return out
}

func (g *slGen) ref(v *slVar) {
	if g.knownShape(v) {
		g.known = true
		g.feat["known-shape-reference"]++
	}
}

func (g *slGen) acc(ind int, v *slVar) {
	g.ref(v)
	if v.typ == "num" {
		g.emit(ind, "ran = ran + [", v, "]")
	} else {
		g.emit(ind, "ras = ras + [", v, "]")
	}
	g.stmts++
}

func (g *slGen) accAll(ind int) {
	vs := g.accessible()
	if len(vs) > 6 {
		g.rng.Shuffle(len(vs), func(i, j int) { vs[i], vs[j] = vs[j], vs[i] })
		vs = vs[:6]
		sort.Slice(vs, func(i, j int) bool { return vs[i].id < vs[j].id })
	}
	for _, v := range vs {
		g.acc(ind, v)
	}
}

// newVar picks the name: a visible variable's (shadowing / collision), a dead
// one's (slot reuse after a sibling) or a new one. forDecl: a `:=` may not
// repeat a name of its own block (a loop variable belongs to the body's block).
func (g *slGen) newVar(typ string, ro, forDecl bool) *slVar {
	g.nvars++
	v := &slVar{id: g.nvars, typ: typ, ro: ro, uname: fmt.Sprintf("u%d", g.nvars)}
	taken := map[string]bool{}
	if forDecl {
		for _, w := range g.top().vars {
			taken[w.pname] = true
		}
	}
	var cands []string
	switch k := g.rng.Intn(10); {
	case k < 6: // a visible name, innermost blocks more often
		for i, f := range g.frames {
			for _, w := range f.vars {
				if !taken[w.pname] {
					cands = append(cands, w.pname)
					if i == len(g.frames)-1 || i == len(g.frames)-2 {
						cands = append(cands, w.pname)
					}
				}
			}
		}
		g.feat["name:visible"]++
	case k < 8: // any name used so far (dead ones too)
		for _, n := range g.used {
			if !taken[n] {
				cands = append(cands, n)
			}
		}
		g.feat["name:used"]++
	}
	if len(cands) > 0 {
		v.pname = cands[g.rng.Intn(len(cands))]
	} else {
		v.pname = fmt.Sprintf("n%d", g.nvars)
		g.feat["name:new"]++
	}
	if w := g.lookup(v.pname); w != nil {
		switch {
		case ro && w.ro:
			g.feat["collision:loopvar-over-loopvar"]++
		case ro:
			g.feat["collision:loopvar-over-decl"]++
		case w.ro:
			g.feat["collision:decl-over-loopvar"]++
		default:
			g.feat["collision:decl-over-decl"]++
		}
		if w.typ != typ {
			g.feat["collision:other-type"]++
		}
	}
	g.used = append(g.used, v.pname)
	return v
}

func (g *slGen) declare(v *slVar) {
	v.seq = g.tick()
	v.frame = g.top()
	g.top().vars = append(g.top().vars, v)
}

func (g *slGen) lit(typ string, id int) string {
	if typ == "num" {
		return fmt.Sprint(1000 + 10*id)
	}
	return fmt.Sprintf("\"s%d\"", id)
}

func (g *slGen) decl(ind int) {
	typ := []string{"num", "num", "string"}[g.rng.Intn(3)]
	v := g.newVar(typ, false, true)
	// the initialiser may read the variable being shadowed (it belongs to the scope before the declaration)
	if w := g.lookup(v.pname); w != nil && w.typ == typ && g.rng.Intn(3) == 0 && (!g.knownShape(w) || g.allowKnown) {
		g.ref(w)
		g.emit(ind, v, " := ", w, " + ", g.lit(typ, v.id)) // in P the same name on both sides
		g.feat["decl:self-shadow"]++
	} else {
		g.emit(ind, v, " := ", g.lit(typ, v.id))
	}
	g.declare(v)
	g.feat["decl"]++
	g.acc(ind, v)
}

func (g *slGen) assign(ind int) {
	var cands []*slVar
	for _, v := range g.accessible() {
		if !v.ro {
			cands = append(cands, v)
		}
	}
	if len(cands) == 0 {
		return
	}
	v := cands[g.rng.Intn(len(cands))]
	g.ref(v)
	if v.typ == "num" {
		g.emit(ind, v, " = ", v, " + ", fmt.Sprint(100000*(1+g.rng.Intn(9))))
	} else {
		g.emit(ind, v, " = ", v, " + \"", string(rune('A'+g.rng.Intn(26))), "\"")
	}
	g.feat["assign"]++
	g.stmts++
}

var slRanges = []struct{ hdr, typ, what string }{
	{"range 3", "num", "stop"},
	{"range 2", "num", "stop"},
	{"range 10 12", "num", "start-stop"},
	{"range 7 1 -3", "num", "step"},
	{"range [41 42]", "num", "array"},
	{"range [\"p\" \"q\"]", "string", "string-array"},
	{"range \"xyz\"", "string", "string"},
	{"range {ka:1 kb:2}", "string", "map"},
}

// body generates the statements of one block. declFree: no `:=` directly in it.
func (g *slGen) body(ind, depth int, declFree bool) {
	n := 1 + g.rng.Intn(4)
	did := false
	for i := 0; i < n && g.stmts < 60; i++ {
		k := g.rng.Intn(12)
		switch {
		case k < 3 && !declFree:
			g.decl(ind)
			did = true
		case k < 4:
			g.assign(ind)
			g.accAll(ind)
			did = true
		case k < 5:
			g.accAll(ind)
			did = true
		case depth < g.maxDepth:
			g.construct(ind, depth)
			g.accAll(ind) // after a nested construct closed: every accessible variable must still have its value
			did = true
		default:
			if !declFree && g.rng.Intn(2) == 0 {
				g.decl(ind)
			} else {
				g.assign(ind)
				g.accAll(ind)
			}
			did = true
		}
	}
	_ = did
}

func (g *slGen) block(ind, depth int, kind string, pre func()) {
	g.push(kind)
	start := g.p.Len()
	if pre != nil {
		pre()
	}
	declFree := g.rng.Intn(10) < 6
	if declFree {
		g.feat["block:declaration-free"]++
	} else {
		g.feat["block:may-declare"]++
	}
	g.body(ind, depth, declFree)
	if g.p.Len() == start {
		g.emit(ind, "ran = ran + [gt]")
	}
	g.pop()
}

func (g *slGen) construct(ind, depth int) {
	g.stmts++
	switch k := g.rng.Intn(12); {
	case k < 2:
		g.feat["if"]++
		g.emit(ind, "if gt > 0")
		g.block(ind+1, depth+1, "if", nil)
		g.emit(ind, "end")
	case k < 3:
		g.feat["if-else"]++
		g.emit(ind, "if gt ", []string{"<", ">"}[g.rng.Intn(2)], " 0")
		g.block(ind+1, depth+1, "if", nil)
		g.emit(ind, "else")
		g.block(ind+1, depth+1, "else", nil)
		g.emit(ind, "end")
	case k < 4:
		g.feat["else-if"]++
		g.emit(ind, "if gt < 0")
		g.block(ind+1, depth+1, "if", nil)
		g.emit(ind, "else if gt ", []string{"<", ">"}[g.rng.Intn(2)], " 0")
		g.block(ind+1, depth+1, "else-if", nil)
		if g.rng.Intn(2) == 0 {
			g.emit(ind, "else")
			g.block(ind+1, depth+1, "else", nil)
		}
		g.emit(ind, "end")
	case k < 5:
		g.feat["while"]++
		c := fmt.Sprintf("wc%d", g.nwhile%4)
		g.nwhile++
		// the counters are globals declared at the top; a nested while takes the next one
		g.emit(ind, c, " = 0")
		g.emit(ind, "while ", c, " < 2")
		g.block(ind+1, depth+1, "while", func() { g.emit(ind+1, c, " = ", c, " + 1") })
		g.emit(ind, "end")
		g.nwhile--
	case k < 6:
		g.feat["for-novar"]++
		g.emit(ind, "for range 2")
		g.block(ind+1, depth+1, "for", nil)
		g.emit(ind, "end")
	default:
		rg := slRanges[g.rng.Intn(len(slRanges))]
		g.feat["for-var:"+rg.what]++
		v := g.newVar(rg.typ, true, false)
		g.emit(ind, "for ", v, " := ", rg.hdr)
		g.block(ind+1, depth+1, "for", func() {
			g.declare(v) // the loop variable belongs to the loop's scope, which is the body's
			g.acc(ind+1, v)
		})
		g.emit(ind, "end")
		// the shape of the known finding: from now on, inside this block, the name means the dead loop variable
		g.top().poison[v.pname] = g.tick()
	}
}

// genSlotProgram returns P, P' and whether a reference of the known shape is in them.
func genSlotProgram(rng *rand.Rand, allowKnown bool) (p, u string, known bool, feat map[string]int) {
	g := &slGen{rng: rng, maxDepth: 2 + rng.Intn(3), allowKnown: allowKnown, feat: map[string]int{}}
	g.push("top")
	g.emit(0, "gt := 1")
	g.emit(0, "ran := [0]")
	g.emit(0, "ras := [\"\"]")
	for i := 0; i < 4; i++ {
		g.emit(0, fmt.Sprintf("wc%d := 0", i))
	}
	// the top level: like a block that may declare (its variables are VM globals), at least one construct
	n := 2 + rng.Intn(4)
	hasConstruct := false
	for i := 0; i < n && g.stmts < 60; i++ {
		switch k := rng.Intn(10); {
		case k < 3:
			g.decl(0)
		case k < 4:
			g.assign(0)
			g.accAll(0)
		default:
			g.construct(0, 0)
			g.accAll(0)
			hasConstruct = true
		}
	}
	if !hasConstruct {
		g.construct(0, 0)
		g.accAll(0)
	}
	// the counters are used (the parser wants every variable used)
	g.emit(0, "gt = gt + wc0 + wc1 + wc2 + wc3")
	g.emit(0, "ran = ran + [gt]")
	g.emit(0, "ras = ras + [\"z\"]")
	return g.p.String(), g.u.String(), g.known, g.feat
}

// c17SlotTrace runs src on the real VM and on the real evaluator; returns the
// two traces (ran, ras) of each.
func c17SlotTrace(src string) (vmTrace, evTrace string, note string) {
	c := c17Compile(src)
	if c.ParseErr != "" {
		return "", "", "parse: " + c.ParseErr
	}
	if c.CompileErr != "" || c.bc == nil {
		return "", "", "compile: " + c.CompileErr
	}
	vm := c16RunVM(c, 5*time.Second)
	if vm.Class != "ok" {
		return "", "", "vm: " + vm.Class + " " + vm.Detail
	}
	vmTrace = "ran=" + vm.Globals["ran"] + " ras=" + vm.Globals["ras"]
	ev := RunEvy(src, RunOpts{YieldBudget: 2_000_000, NoSummary: true})
	if ev.Class != "ok" {
		return vmTrace, "", "evaluator: " + ev.Class + " " + ev.ErrText
	}
	eg, err := evalGlobals(ev.Eval.VerifGlobals())
	if err != nil {
		return vmTrace, "", "evaluator-dump: " + err.Error()
	}
	evTrace = "ran=" + eg["ran"] + " ras=" + eg["ras"]
	return
}

func c17SlotCase(p, u string, known bool, model *Model, r *Result) {
	in := map[string]any{"program": p, "renamed": u, "stream": "slots", "known_shape": known}
	// the emitted bytecode of P through the validators and the VM run of the program stream
	if known {
		c17Program(p, false, "slots-known", model, r)
	} else {
		c17Program(p, false, "slots", model, r)
	}
	vp, ep, np := c17SlotTrace(p)
	vu, eu, nu := c17SlotTrace(u)
	if np != "" || nu != "" {
		r.Dist("slots:not-run")
		if r.Distribution["slots:not-run"] <= 3 {
			r.Note("slots: generated program not run (%s / %s): %q", np, nu, p)
		}
		if strings.HasPrefix(nu, "vm: gopanic") { // a panic on P itself is reported by c17Program above
			r.Violate(Violation{Kind: "property", Key: "vm-host-panic", Detail: "the VM panicked on compiler output (the renamed program): " + nu, Input: in})
		}
		return
	}
	r.Validated++
	// generator self-check on the reference implementation: P and P' are alpha-equivalent
	if ep != eu {
		r.Violate(Violation{Kind: "correspondence", Key: "slots-renaming-not-equivalent",
			Detail: "the evaluator records different traces for the program and its renaming to one name per variable (generator or evaluator scoping)",
			Input:  in, Impl: map[string]any{"evaluator_P": ep, "evaluator_renamed": eu}})
		return
	}
	if vp == vu {
		if known {
			r.Dist("slots:known-shape-same-trace")
		} else {
			r.Dist("slots:same-trace")
		}
		return
	}
	key := "live-variables-share-slot"
	detail := "the VM records a different trace of variable values for a program and for the same program with one name per variable: a store to one variable changed (or a read reached) another variable that is alive at the same time — they share a storage slot"
	if known {
		key = "vm-loopvar-clobbers-outer"
		detail = "known shape (a variable visible at a `for v := range` of its own name is referenced again inside the block around the loop): " + detail
	}
	r.Violate(Violation{Kind: "property", Key: key, Detail: detail, Input: in,
		Impl: map[string]any{"vm_P": vp, "vm_renamed": vu, "evaluator": ep}})
}

func c17Slots(cfg Config, model *Model, r *Result) {
	for i, n := 0, cfg.N(260, 12000); i < n; i++ {
		p, u, known, feat := genSlotProgram(cfg.Rng, i%10 == 9)
		for _, k := range sortedKeys(feat) {
			r.Distribution["slots:"+k] += feat[k]
		}
		c17SlotCase(p, u, known, model, r)
	}
}
