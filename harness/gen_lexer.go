package main

// Translator piece for C03: regenerates coq/Gen/TokenTypes.v (the TokenType
// enumeration of pkg/lexer/token.go with its iota codes, String() names and
// format strings) and coq/Gen/Keywords.v (the keyword table) by reading
// token.go with go/ast. Both tables are cross-checked against the exported
// API (TokenType.String, TokenType.Format, lexing each keyword), so a
// disagreement between the static read and the compiled package is a
// translator failure, not a silently wrong table.

import (
	"fmt"
	"go/ast"
	"go/parser"
	"go/token"
	"os"
	"path/filepath"
	"reflect"
	"runtime"
	"strconv"
	"strings"

	"evylang.dev/evy/pkg/lexer"
)

type lexTokenType struct {
	Name   string // Go constant name
	Code   int    // iota value
	Str    string // tokenStrings[..].string
	Format string // tokenStrings[..].format
}

type lexKeyword struct {
	Text string
	Type string // Go constant name
}

// lexerSourceDir finds the directory of the lexer package the harness was
// compiled against (follows the go.mod replace directive).
func lexerSourceDir() string {
	pc := reflect.ValueOf(lexer.New).Pointer()
	file, _ := runtime.FuncForPC(pc).FileLine(pc)
	return filepath.Dir(file)
}

func readLexerTables() ([]lexTokenType, []lexKeyword, error) {
	path := filepath.Join(lexerSourceDir(), "token.go")
	fset := token.NewFileSet()
	f, err := parser.ParseFile(fset, path, nil, 0)
	if err != nil {
		return nil, nil, err
	}
	var types []lexTokenType
	var kws []lexKeyword
	strs := map[string][2]string{}
	for _, d := range f.Decls {
		gd, ok := d.(*ast.GenDecl)
		if !ok {
			continue
		}
		switch gd.Tok {
		case token.CONST:
			// the TokenType iota block: first spec is `ILLEGAL TokenType = iota`
			if len(gd.Specs) == 0 {
				continue
			}
			first := gd.Specs[0].(*ast.ValueSpec)
			id, ok := first.Type.(*ast.Ident)
			if !ok || id.Name != "TokenType" {
				continue
			}
			if len(first.Values) != 1 {
				return nil, nil, fmt.Errorf("token.go: TokenType block does not start with iota")
			}
			if v, ok := first.Values[0].(*ast.Ident); !ok || v.Name != "iota" {
				return nil, nil, fmt.Errorf("token.go: TokenType block does not start with iota")
			}
			for i, s := range gd.Specs {
				vs := s.(*ast.ValueSpec)
				if len(vs.Names) != 1 || (i > 0 && (len(vs.Values) != 0 || vs.Type != nil)) {
					return nil, nil, fmt.Errorf("token.go: unexpected const spec shape at %s", fset.Position(vs.Pos()))
				}
				types = append(types, lexTokenType{Name: vs.Names[0].Name, Code: i})
			}
		case token.VAR:
			for _, s := range gd.Specs {
				vs := s.(*ast.ValueSpec)
				if len(vs.Names) != 1 || len(vs.Values) != 1 {
					continue
				}
				cl, ok := vs.Values[0].(*ast.CompositeLit)
				if !ok {
					continue
				}
				switch vs.Names[0].Name {
				case "keywords":
					for _, e := range cl.Elts {
						kv := e.(*ast.KeyValueExpr)
						k, ok1 := kv.Key.(*ast.BasicLit)
						v, ok2 := kv.Value.(*ast.Ident)
						if !ok1 || !ok2 || k.Kind != token.STRING {
							return nil, nil, fmt.Errorf("token.go: unexpected keywords entry at %s", fset.Position(kv.Pos()))
						}
						text, err := strconv.Unquote(k.Value)
						if err != nil {
							return nil, nil, err
						}
						kws = append(kws, lexKeyword{Text: text, Type: v.Name})
					}
				case "tokenStrings":
					for _, e := range cl.Elts {
						kv := e.(*ast.KeyValueExpr)
						k, ok1 := kv.Key.(*ast.Ident)
						v, ok2 := kv.Value.(*ast.CompositeLit)
						if !ok1 || !ok2 {
							return nil, nil, fmt.Errorf("token.go: unexpected tokenStrings entry at %s", fset.Position(kv.Pos()))
						}
						var pair [2]string
						for _, fe := range v.Elts {
							fkv, ok := fe.(*ast.KeyValueExpr)
							if !ok {
								return nil, nil, fmt.Errorf("token.go: positional tokenString at %s", fset.Position(fe.Pos()))
							}
							lit, ok := fkv.Value.(*ast.BasicLit)
							if !ok || lit.Kind != token.STRING {
								return nil, nil, fmt.Errorf("token.go: non-literal tokenString at %s", fset.Position(fe.Pos()))
							}
							s, err := strconv.Unquote(lit.Value)
							if err != nil {
								return nil, nil, err
							}
							switch fkv.Key.(*ast.Ident).Name {
							case "string":
								pair[0] = s
							case "format":
								pair[1] = s
							}
						}
						strs[k.Name] = pair
					}
				}
			}
		}
	}
	if len(types) == 0 || len(kws) == 0 || len(strs) == 0 {
		return nil, nil, fmt.Errorf("token.go: TokenType block / keywords / tokenStrings not found (%d/%d/%d)", len(types), len(kws), len(strs))
	}
	byName := map[string]int{}
	for i := range types {
		p, ok := strs[types[i].Name]
		if !ok {
			return nil, nil, fmt.Errorf("token.go: no tokenStrings entry for %s", types[i].Name)
		}
		types[i].Str, types[i].Format = p[0], p[1]
		byName[types[i].Name] = types[i].Code
	}
	// cross-check with the compiled package
	for _, t := range types {
		tt := lexer.TokenType(t.Code)
		if tt.String() != t.Str {
			return nil, nil, fmt.Errorf("translator cross-check: TokenType(%d).String()=%q, token.go says %q", t.Code, tt.String(), t.Str)
		}
		switch t.Name {
		case "EOF", "NL", "IDENT":
		default:
			if tt.Format() != fmt.Sprintf("%q", t.Format) {
				return nil, nil, fmt.Errorf("translator cross-check: TokenType(%d).Format()=%s, token.go says %q", t.Code, tt.Format(), t.Format)
			}
		}
	}
	if lexer.TokenType(len(types)).String() != "UNKNOWN" {
		return nil, nil, fmt.Errorf("translator cross-check: TokenType(%d) exists but is not in the const block", len(types))
	}
	seen := map[string]bool{}
	for _, k := range kws {
		if seen[k.Text] {
			return nil, nil, fmt.Errorf("duplicate keyword %q", k.Text)
		}
		seen[k.Text] = true
		code, ok := byName[k.Type]
		if !ok {
			return nil, nil, fmt.Errorf("keyword %q maps to unknown token type %s", k.Text, k.Type)
		}
		l := lexer.New(k.Text)
		tok := l.Next()
		if int(tok.Type) != code {
			return nil, nil, fmt.Errorf("translator cross-check: lexing %q gives %s, keywords table says %s", k.Text, tok.Type, k.Type)
		}
	}
	return types, kws, nil
}

func coqStr(s string) string {
	parts := []string{}
	for _, r := range s {
		parts = append(parts, strconv.Itoa(int(r)))
	}
	return "[" + strings.Join(parts, "; ") + "]"
}

func genLexerTables(dir string) error {
	types, kws, err := readLexerTables()
	if err != nil {
		return err
	}
	var b strings.Builder
	b.WriteString("(* generated by harness/gen_lexer.go from pkg/lexer/token.go - do not edit.\n")
	b.WriteString("   TokenType const block (iota codes), tokenStrings (String() name, format). *)\n")
	b.WriteString("From Coq Require Import NArith List.\nFrom EvyV Require Import Base.\nImport ListNotations.\nOpen Scope N_scope.\n\n")
	b.WriteString("Inductive token_type : Set :=\n")
	for _, t := range types {
		fmt.Fprintf(&b, "| T_%s\n", t.Name)
	}
	b.WriteString(".\n\nScheme Equality for token_type.\n\n")
	b.WriteString("Definition tt_code (t : token_type) : N :=\n  match t with\n")
	for _, t := range types {
		fmt.Fprintf(&b, "  | T_%s => %d\n", t.Name, t.Code)
	}
	b.WriteString("  end.\n\n(* TokenType.String() *)\nDefinition tt_name (t : token_type) : str :=\n  match t with\n")
	for _, t := range types {
		fmt.Fprintf(&b, "  | T_%s => %s (* %s *)\n", t.Name, coqStr(t.Str), t.Str)
	}
	b.WriteString("  end.\n\n(* tokenStrings[t].format *)\nDefinition tt_format (t : token_type) : str :=\n  match t with\n")
	for _, t := range types {
		fmt.Fprintf(&b, "  | T_%s => %s\n", t.Name, coqStr(t.Format))
	}
	b.WriteString("  end.\n\nDefinition all_token_types : list token_type :=\n  [")
	for i, t := range types {
		if i > 0 {
			b.WriteString("; ")
		}
		b.WriteString("T_" + t.Name)
	}
	b.WriteString("].\n")
	if err := os.WriteFile(filepath.Join(dir, "TokenTypes.v"), []byte(b.String()), 0o644); err != nil {
		return err
	}
	b.Reset()
	b.WriteString("(* generated by harness/gen_lexer.go from pkg/lexer/token.go (var keywords) - do not edit. *)\n")
	b.WriteString("From Coq Require Import NArith List.\nFrom EvyV Require Import Base.\nFrom EvyV.Gen Require Import TokenTypes.\nImport ListNotations.\nOpen Scope N_scope.\n\n")
	b.WriteString("Definition keywords : list (str * token_type) :=\n  [")
	for i, k := range kws {
		if i > 0 {
			b.WriteString(";\n   ")
		}
		fmt.Fprintf(&b, "(%s, T_%s) (* %s *)", coqStr(k.Text), k.Type, k.Text)
	}
	b.WriteString("].\n")
	return os.WriteFile(filepath.Join(dir, "Keywords.v"), []byte(b.String()), 0o644)
}

func init() { generators = append(generators, genLexerTables) }
