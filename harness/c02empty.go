package main

// C02 — untyped empty composite literals against operands / declared types / parameters of EVERY kind.
//
// The untyped empty literals `[]` and `{}` (alone, grouped, sliced, repeated, concatenated, nested inside other
// literals at any level: `[[]]`, `{a:[]}`, `[{}]` ...) are the one place where the parser's type relations
// (Type.matches for binary operands, Type.accepts for assignments / arguments / returns, combineTypes for literal
// elements) answer "yes" for two structurally different types.  The evaluator relies on these answers: when one of
// them is "yes" for operands of different kinds, the run hits an unchecked Go type assertion or an
// "X.Equals called with non-X value" internal panic.
//
// The stream puts an empty-ish operand E next to a partner P of every kind (num, string, bool, any, arrays and
// maps of every element kind, typed variables, nested literals) in every typed position:
//
//	binary operators (all of them, both operand orders), evaluated in print / declaration / condition /
//	argument / return position; assignment to a declared variable, element and field; argument of a typed
//	(also variadic) parameter; return value of a typed function; element next to a typed sibling in an array /
//	map literal; index, slice bound, range operand, `has`, `len`, type assertion.
//
// Most combinations are ill-typed and must be rejected by the parser (counted as skipped:parse-error).  Whatever
// the parser accepts is run: it must not go wrong (property oracle) and must agree with the evaluator model.

import (
	"fmt"
	"math/rand"
	"regexp"
	"strings"
)

var c02EmptyOperands = []string{
	"[]", "{}", "[]", "{}", "[[]]", "[{}]", "{a:[]}", "{a:{}}", "[[[]]]", "[[] []]", "[{} {}]", "{a:[] b:[]}", "{a:[[]]}", "[{a:[]}]",
	"([])", "({})", "[][:]", "[[]][0]", "[{}][0]", "{a:[]}.a", "{a:{}}.a", "([] + [])", "([] * 2)", "[[]][:1]", "([[]] + [[]])",
	"e1", "e2", "e3", // variables declared from empty literals (their types are the fixed []any / {}any / [][]any)
}

// partners: expressions of every kind; the variables are declared by the prelude
var c02Partners = []string{
	"1", "0", "n", "(n + 1)", "-n", `"abc"`, `""`, "s", `(s + "x")`, "true", "false", "b", "!b", "(n > 0)",
	"a", "an", "am", "ns", "ss", "bs", "nn", "ms", "mss", "mns", "nms",
	"[1]", "[1 2]", "[n]", `["a"]`, "[s]", "[true]", "[[1]]", "[[1] [2]]", `[["a"]]`, "[{a:1}]", "[[[1]]]",
	"{a:1}", "{a:n}", `{a:"x"}`, "{a:true}", "{a:[1]}", "{a:{b:1}}", `{a:["x"]}`, "[1 \"a\"]", "{a:1 b:\"x\"}", "[[1] [\"a\"]]",
	"ns[0]", "ss[0]", "nn[0]", "ms.a", "mns.a", "nms[0]", "ns[:1]", "(len ns)", "(typeof ns)", "(has ms \"a\")", "(f1 n)", "(f2 s)", "(f3 ns)",
	"a.(num)", "a.([]num)", "an[0]", "am.a",
}

var c02DeclTypes = []string{"num", "string", "bool", "any", "[]num", "[]string", "[]bool", "[]any", "{}num", "{}string", "{}any",
	"[][]num", "[]{}num", "{}[]num", "{}{}num", "[][]any", "[]{}any", "{}[]any", "[][][]num", "[][]string"}

var c02BinOps = []string{"==", "!=", "==", "!=", "+", "+", "<", ">", "<=", ">=", "-", "*", "/", "%", "and", "or"}

// the variables / functions the operands refer to; only those a program mentions are declared (short replays)
var c02EmptyDecls = []struct{ name, decl string }{
	{"n", "n := 2\n"}, {"s", "s := \"st\"\n"}, {"b", "b := true\n"}, {"a", "a:any\na = 1\n"}, {"an", "an:[]any\nan = [1 \"x\"]\n"},
	{"am", "am:{}any\nam.a = 1\n"}, {"ns", "ns := [1 2 3]\n"}, {"ss", "ss := [\"p\" \"q\"]\n"}, {"bs", "bs := [true false]\n"},
	{"nn", "nn := [[1 2] [3]]\n"}, {"ms", "ms := {a:1 b:2}\n"}, {"mss", "mss := {a:\"x\"}\n"}, {"mns", "mns := {a:[1 2]}\n"},
	{"nms", "nms := [{a:1}]\n"}, {"e1", "e1 := []\n"}, {"e2", "e2 := {}\n"}, {"e3", "e3 := [[]]\n"},
	{"f1", "func f1:num x:num\n    return x + 1\nend\n"}, {"f2", "func f2:string x:string\n    return x + \"!\"\nend\n"},
	{"f3", "func f3:[]num x:[]num\n    return x + [0]\nend\n"},
}

var c02WordRe = regexp.MustCompile(`[a-z][a-z0-9]*`)

func c02EmptyPrelude(body string) string {
	used := map[string]bool{}
	for _, w := range c02WordRe.FindAllString(body, -1) {
		used[w] = true
	}
	var b, pr strings.Builder
	for _, d := range c02EmptyDecls {
		if used[d.name] {
			b.WriteString(d.decl)
			if d.name[0] != 'f' {
				pr.WriteString(" " + d.name)
			}
		}
	}
	if pr.Len() > 0 {
		b.WriteString("print" + pr.String() + "\n")
	}
	return b.String()
}

// c02EmptyProgram returns one program of the family and the name of its sub-family.
func c02EmptyProgram(rng *rand.Rand) (string, string) {
	pick := func(l []string) string { return l[rng.Intn(len(l))] }
	e := pick(c02EmptyOperands)
	p := pick(c02Partners)
	if rng.Intn(6) == 0 {
		p = pick(c02EmptyOperands) // empty against empty (often well typed)
	}
	var b strings.Builder
	w := func(format string, args ...any) { fmt.Fprintf(&b, format, args...) }
	fam := ""
	switch k := rng.Intn(20); {
	case k < 9: // binary operator, both orders, in several evaluated positions
		fam = "binary"
		op := pick(c02BinOps)
		l, r := e, p
		if rng.Intn(2) == 0 {
			l, r = p, e
		}
		x := "(" + l + " " + op + " " + r + ")"
		switch rng.Intn(8) {
		case 0:
			w("print %s\n", x)
		case 1:
			w("x := %s\nprint x (typeof x)\n", x)
		case 2:
			w("if %s == %s\n    print \"same\"\nelse\n    print \"different\"\nend\n", x, x)
		case 3:
			w("func g:bool\n    return (%s == %s)\nend\nprint (g)\n", l, r)
		case 4:
			w("func g v:any\n    print v (typeof v)\nend\ng %s\n", x)
		case 5:
			w("for i := range 2\n    y := %s\n    print i y\nend\n", x)
		case 6:
			w("print [%s] {k:%s}\n", x, x)
		default:
			w("while %s != %s\n    print \"never\"\n    break\nend\nprint (typeof %s)\n", x, x, x)
		}
	case k < 12: // assignment to a declared variable / element / field
		fam = "assign"
		t := pick(c02DeclTypes)
		switch rng.Intn(5) {
		case 0:
			w("v:%s\nv = %s\nprint v (typeof v)\n", t, e)
		case 1:
			w("v:%s\nprint v\nv = %s\nw := v\nprint v (typeof v) (w == v)\n", t, e)
		case 2:
			w("v := %s\nv = %s\nprint v (typeof v)\n", p, e)
		case 3:
			tgt := pick([]string{"ns[0]", "ss[1]", "nn[0]", "nn[1][0]", "ms.a", "mns.a", "nms[0]", "nms[0].a", "an[0]", "am.a", "n", "s", "b", "a"})
			root := strings.FieldsFunc(tgt, func(c rune) bool { return c == '[' || c == '.' })[0]
			w("%s = %s\nprint %s (typeof %s)\nprint %s (typeof %s)\n", tgt, e, tgt, tgt, root, root)
		default:
			w("v := %s\nv = %s\nprint v (typeof v)\n", e, p)
		}
	case k < 15: // argument of a typed parameter, return value of a typed function
		fam = "call"
		t := pick(c02DeclTypes)
		switch rng.Intn(5) {
		case 0:
			w("func g x:%s\n    print x (typeof x)\n    y := x\n    print (y == x)\nend\ng %s\n", t, e)
		case 1:
			w("func g x:%s...\n    print x (typeof x) (len x)\n    for y := range x\n        print y (typeof y)\n    end\nend\ng %s %s\ng %s\ng\n", t, e, e, e)
		case 2:
			w("func g:%s\n    return %s\nend\nr := (g)\nprint r (typeof r)\n", t, e)
		case 3:
			w("func g:%s c:bool\n    if c\n        return %s\n    end\n    return %s\nend\nprint (g true) (g false) (typeof (g true))\n", t, e, p)
		default:
			bi := pick([]string{"f1 %s", "f2 %s", "f3 %s", "len %s", "has %s \"a\"", "has ms %s", "del %s \"a\"", "str2num %s", "abs %s", "join %s \",\"", "join ss %s", "split %s \",\"", "index %s 1", "index ns %s", "startswith %s \"a\"", "sprint %s", "typeof %s"})
			w("print ("+bi+")\n", e)
		}
	case k < 18: // element / value next to a typed sibling inside a literal
		fam = "literal"
		switch rng.Intn(5) {
		case 0:
			w("x := [%s %s]\nprint x (typeof x) (x[0] == x[1])\n", p, e)
		case 1:
			w("x := [%s %s]\nprint x (typeof x) (x[0] == x[1])\n", e, p)
		case 2:
			w("x := {k:%s l:%s}\nprint x (typeof x) (x.k == x.l)\n", p, e)
		case 3:
			w("x := [[%s] [%s]]\nprint x (typeof x)\ny := x[0] + x[1]\nprint y (typeof y)\n", e, p)
		default:
			w("x := [%s %s %s]\nfor y := range x\n    print y (typeof y)\nend\n", e, p, e)
		}
	default: // index, slice bound, range operand, type assertion, unary operators
		fam = "operand"
		switch rng.Intn(10) {
		case 0:
			w("print ns[%s]\n", e)
		case 1:
			w("print ms[%s]\n", e)
		case 2:
			w("print ns[%s:] s[:%s]\n", e, e)
		case 3:
			w("for x := range %s\n    print x (typeof x)\nend\nprint \"after\"\n", e)
		case 4:
			w("for x := range 1 %s\n    print x\nend\n", e)
		case 5:
			w("v:any\nv = %s\nprint v (typeof v) v.(%s)\n", e, pick(c02DeclTypes))
		case 6:
			w("print -%s\n", e)
		case 7:
			w("print !%s\n", e)
		case 8:
			w("x := %s\nprint x[0]\n", e)
		default:
			w("x := %s\nprint x.a (typeof x)\n", e)
		}
	}
	return c02EmptyPrelude(b.String()) + b.String(), fam
}
