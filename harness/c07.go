package main

import (
	"bytes"
	"encoding/json"
	"fmt"
	"os"
	"os/exec"
	"path/filepath"
	"strconv"
	"strings"
	"time"

	"evylang.dev/evy/pkg/parser"
)

// C07 — Formatting is canonical and idempotent.
//
// Correspondence: model format == Program.Format() byte for byte; the model's
// one-pass skeleton transformer skel_step(kinds(parse src)) == kinds(parse(Format())),
// i.e. the blank-line logic the idempotence theorem speaks about is what a
// re-parse of the real output sees; the shape theorem's instance (shape_lines)
// holds on the model text. Property oracles on the real code: Format twice,
// white-space variants format equal, shape predicate (+ depth) on Go's output,
// `evy fmt -c` through the real binary.

// fmBuildEvy builds the evy CLI from /repo into a temporary directory.
func fmBuildEvy() (bin string, cleanup func(), err error) {
	dir, err := os.MkdirTemp("", "evybin")
	if err != nil {
		return "", nil, err
	}
	bin = filepath.Join(dir, "evy")
	cmd := exec.Command("go", "build", "-o", bin, ".")
	cmd.Dir = "/repo"
	if d := os.Getenv("VERIF_REPO"); d != "" { // sanity runs against a scratch copy of the repo
		cmd.Dir = d
	}
	cmd.Env = append(os.Environ(), "GOFLAGS=-mod=mod", "GOPROXY=off", "GOSUMDB=off", "GOTOOLCHAIN=local", "CGO_ENABLED=0")
	if out, err := cmd.CombinedOutput(); err != nil {
		os.RemoveAll(dir)
		return "", nil, fmt.Errorf("go build evy: %v\n%s", err, out)
	}
	return bin, func() { os.RemoveAll(dir) }, nil
}

type fmBinResult struct {
	Exit    int
	Stdout  string
	Stderr  string
	Timeout bool
}

func runBin(bin string, stdin string, timeout time.Duration, args ...string) fmBinResult {
	cmd := exec.Command(bin, args...)
	cmd.Stdin = strings.NewReader(stdin)
	var so, se bytes.Buffer
	cmd.Stdout, cmd.Stderr = &so, &se
	if err := cmd.Start(); err != nil {
		return fmBinResult{Exit: -1, Stderr: err.Error()}
	}
	done := make(chan error, 1)
	go func() { done <- cmd.Wait() }()
	var res fmBinResult
	select {
	case err := <-done:
		if ee, ok := err.(*exec.ExitError); ok {
			res.Exit = ee.ExitCode()
		} else if err != nil {
			res.Exit = -1
		}
	case <-time.After(timeout):
		cmd.Process.Kill()
		<-done
		res.Timeout = true
		res.Exit = -2
	}
	res.Stdout, res.Stderr = so.String(), se.String()
	return res
}

// stmtKinds mirrors newAccumulations' classification on the real tree.
func stmtKinds(prog *parser.Program) string {
	var b strings.Builder
	b.WriteString("(")
	for i, s := range prog.Statements {
		if i > 0 {
			b.WriteString(" ")
		}
		switch s.(type) {
		case *parser.EmptyStmt:
			if c, _ := parser.VerifComment(prog, s); c != "" {
				b.WriteString("c")
			} else {
				b.WriteString("e")
			}
		case *parser.FuncDefStmt, *parser.EventHandlerStmt:
			b.WriteString("f")
		default:
			b.WriteString("s")
		}
	}
	b.WriteString(")")
	return b.String()
}

// hasRunCommentFunc: a run of >= 2 plain statements, then comment line(s), then func/on.
func hasRunCommentFunc(kinds string) bool {
	k := strings.ReplaceAll(strings.Trim(kinds, "()"), " ", "")
	for i := 0; i+3 < len(k); i++ {
		if k[i] == 's' && k[i+1] == 's' {
			j := i + 2
			for j < len(k) && k[j] == 's' {
				j++
			}
			n := j
			for j < len(k) && k[j] == 'c' {
				j++
			}
			if j > n && j < len(k) && k[j] == 'f' {
				return true
			}
		}
	}
	return false
}

type c07Ctx struct {
	model     *Model
	r         *Result
	bin       string
	binRuns   int
	binDefect int
	maxBin    int
	cfg       Config
}

func c07Check(c *c07Ctx, in fmtInput) {
	r := c.r
	src := in.Src
	prog, err := safeParse(src)
	if err != nil {
		r.Dist("input:" + in.Kind + ":rejected")
		return
	}
	r.Dist("input:" + in.Kind + ":accepted")
	r.Count(src, fmtNontrivial(src))
	f1, err := safeFormat(prog)
	if err != nil {
		r.Violate(Violation{Kind: "property", Key: "format-gopanic", Detail: err.Error(), Input: src})
		return
	}
	kinds1 := stmtKinds(prog)

	// ---- correspondence ----
	m, err := askFormatModel(c.model, prog)
	if err != nil {
		r.Violate(Violation{Kind: "correspondence", Key: "model-failed", Detail: err.Error(), Input: src})
		return
	}
	r.Validated++
	// a correspondence failure does not end the case: the property's own oracles below still run (DESIGN 5.3)
	modelOK := true
	switch {
	case m.Text != f1:
		modelOK = false
		r.Violate(Violation{Kind: "correspondence", Key: "model-text-differs",
			Detail: "coq/Format.v format and Program.Format() differ on the exported tree", Input: src, Impl: f1, Model: m.Text})
	case !m.WF:
		modelOK = false
		r.Violate(Violation{Kind: "correspondence", Key: "wf-hypothesis-false-on-parser-output", Detail: "wf_prog false on a parser-produced tree", Input: src})
	case !m.Shape:
		r.Violate(Violation{Kind: "correspondence", Key: "shape-theorem-instance-false",
			Detail: "shape_lines (format a) = false on a wf tree: C07_format_shape's instance is false?!", Input: src, Model: m.Text})
	}
	prog2, err := safeParse(f1)
	if err != nil {
		r.Violate(Violation{Kind: "property", Key: "formatted-text-rejected", Detail: err.Error(), Input: src, Impl: f1})
		return
	}
	if k2 := stmtKinds(prog2); modelOK && k2 != m.SkelStep {
		r.Violate(Violation{Kind: "correspondence", Key: "skeleton-step-differs",
			Detail: "skel_step(kinds(parse src)) is not kinds(parse(Format())): the model of one formatting pass on the statement-kind skeleton is not what a re-parse sees",
			Input:  src, Impl: k2, Model: m.SkelStep})
	}

	// ---- property oracle 1: idempotence ----
	f2, err := safeFormat(prog2)
	if err != nil {
		r.Violate(Violation{Kind: "property", Key: "format-gopanic", Detail: err.Error(), Input: f1})
		return
	}
	idem := f1 == f2
	if !idem {
		key := "format-not-idempotent"
		if hasRunCommentFunc(kinds1) {
			key = "format-not-idempotent-comment-before-func"
		}
		r.Violate(Violation{Kind: "property", Key: key,
			Detail: "format(parse(format(parse src))) differs from format(parse src)", Input: src,
			Impl: map[string]any{"once": f1, "twice": f2}})
	}
	// the repaired model must be idempotent where the code is (text level, through the real parser):
	// format_fixed(tree) re-parsed and formatted by Go must not move when Go is already stable
	if idem && m.FixedText != f1 && !hasRunCommentFunc(kinds1) && !strings.Contains(f1, "\n]") && !strings.Contains(f1, "\n}") {
		r.Dist("fixed-model-differs-outside-defect-class")
	}

	// ---- property oracle 2: white-space variants format to the same text ----
	for k := 0; k < 2; k++ {
		v := whitespaceVariant(c.cfg.Rng, src)
		pv, err := safeParse(v)
		if err != nil {
			r.Dist("ws-variant:rejected")
			if len(r.Notes) < 5 {
				r.Note("white-space variant rejected (%v): %q", err, v)
			}
			continue
		}
		fv, err := safeFormat(pv)
		if err != nil || fv != f1 {
			r.Violate(Violation{Kind: "property", Key: "whitespace-variant-formats-differently",
				Detail: "two sources differing only in horizontal white space / blank-run length format to different texts",
				Input:  map[string]any{"source": src, "variant": v}, Impl: map[string]any{"source_formatted": f1, "variant_formatted": fv}})
			break
		}
		r.Dist("ws-variant:equal")
	}

	// ---- property oracle 3: shape of Go's output ----
	if p := shapeProblem(f1); p != "" {
		key := "shape:" + p
		if p == "trailing-blank-line" {
			key = "format-keeps-trailing-blank-line"
		}
		r.Violate(Violation{Kind: "property", Key: key,
			Detail: "Format() output violates: 4k-space indentation, no leading/trailing white space on a line, no two consecutive empty lines, exactly one final newline (" + p + ")",
			Input:  src, Impl: f1})
	} else if modelOK && !m.OneNL {
		r.Violate(Violation{Kind: "correspondence", Key: "ends-one-nl-differs", Detail: "model says not exactly one final newline, Go oracle says fine", Input: src, Impl: f1})
	}
	if p := depthProblem(f1, prog2); p != "" {
		r.Violate(Violation{Kind: "property", Key: "depth:" + p,
			Detail: "Format() output is not indented four spaces per block level: " + p, Input: src, Impl: f1})
	}
	if p := continuationProblem(f1); p != "" {
		key := "depth:" + p
		if strings.Contains(f1, "\n]") || strings.Contains(f1, "\n}") {
			key = "multiline-close-bracket-unindented-after-comment"
		}
		r.Violate(Violation{Kind: "property", Key: key,
			Detail: "Format() output is not indented four spaces per block level: " + p, Input: src, Impl: f1})
	}

	// ---- property oracle 4: `evy fmt -c` through the real binary ----
	pick := c.binRuns < 6 || c.cfg.Rng.Intn(c.cfg.N(60, 8)) == 0
	if !idem && c.binDefect < 2 {
		c.binDefect++
		pick = true
	}
	if c.bin != "" && c.binRuns < c.maxBin && pick {
		c.binRuns++
		own := runBin(c.bin, f1, 10*time.Second, "fmt", "-c")
		if own.Exit != 0 {
			key := "fmt-check-rejects-formatter-output"
			r.Violate(Violation{Kind: "property", Key: key,
				Detail: fmt.Sprintf("`evy fmt -c` exits %d on the formatter's own output (stderr %q)", own.Exit, strings.TrimSpace(own.Stderr)),
				Input:  src, Impl: f1})
		}
		if own.Stdout != "" {
			r.Violate(Violation{Kind: "property", Key: "fmt-check-prints", Detail: "`evy fmt -c` wrote to stdout", Input: src, Impl: own.Stdout})
		}
		// the check tells the truth: exit 0 iff the text equals Format(parse text)
		if src != f1 {
			un := runBin(c.bin, src, 10*time.Second, "fmt", "-c")
			if un.Exit == 0 {
				r.Violate(Violation{Kind: "property", Key: "fmt-check-accepts-unformatted-text",
					Detail: "`evy fmt -c` exits 0 on a text that differs from its formatted form", Input: src, Impl: f1})
			}
			r.Dist("fmt-c:unformatted-rejected")
			// the same verdicts with FILE arguments, one and several per invocation, in every order: `--check` accepts
			// exactly the formatter's own output, whatever else is on the command line
			if c.binRuns%2 == 0 {
				if dir, err := os.MkdirTemp("", "c07files"); err == nil {
					un, fo, fo2 := filepath.Join(dir, "unformatted.evy"), filepath.Join(dir, "formatted.evy"), filepath.Join(dir, "formatted2.evy")
					os.WriteFile(un, []byte(src), 0o644)
					os.WriteFile(fo, []byte(f1), 0o644)
					os.WriteFile(fo2, []byte(f1), 0o644)
					for _, tc := range []struct {
						want bool // exit 0 expected
						args []string
					}{{true, []string{fo}}, {false, []string{un}}, {true, []string{fo, fo2}}, {false, []string{un, fo}}, {false, []string{fo, un}},
						{false, []string{un, fo, fo2}}, {false, []string{fo, un, fo2}}} {
						res := runBin(c.bin, "", 10*time.Second, append([]string{"fmt", "-c"}, tc.args...)...)
						if (res.Exit == 0) != tc.want {
							names := make([]string, len(tc.args))
							for i, a := range tc.args {
								names[i] = filepath.Base(a)
							}
							key := "fmt-check-accepts-unformatted-file"
							if tc.want {
								key = "fmt-check-rejects-formatted-file"
							}
							r.Violate(Violation{Kind: "property", Key: key,
								Detail: fmt.Sprintf("`evy fmt -c %s` exits %d (stderr %q)", strings.Join(names, " "), res.Exit, strings.TrimSpace(res.Stderr)),
								Input:  src, Impl: f1})
						}
					}
					os.RemoveAll(dir)
					r.Dist("fmt-c:file-arguments-checked")
				}
			}
		}
		if (own.Exit == 0) != (f2 == f1) {
			r.Violate(Violation{Kind: "correspondence", Key: "fmt-check-model-differs",
				Detail: "exit status of `evy fmt -c` on t differs from the model fmt_check: t = Format(parse t)", Input: f1})
		}
		// plain `evy fmt` prints exactly Program.Format()
		if c.binRuns%3 == 0 {
			pl := runBin(c.bin, src, 10*time.Second, "fmt")
			if pl.Exit != 0 || pl.Stdout != f1 {
				r.Violate(Violation{Kind: "correspondence", Key: "fmt-binary-differs-from-library",
					Detail: "`evy fmt` (stdin) does not print Program.Format()", Input: src, Impl: pl.Stdout})
			}
		}
		r.Dist("fmt-c:own-output-checked")
	}
	if len(r.Samples) < 3 && strings.Contains(in.Kind, "decorated") && len(src) < 500 {
		r.Sample(map[string]any{"kind": in.Kind, "source": src, "formatted": f1, "kinds": kinds1, "kinds_after": m.SkelStep})
	}
}

func runC07(cfg Config, r *Result) {
	model, err := StartModel("format")
	if err != nil {
		r.Violate(Violation{Kind: "correspondence", Key: "model-start", Detail: err.Error()})
		return
	}
	defer model.Close()
	bin, cleanup, err := fmBuildEvy()
	if err != nil {
		r.Violate(Violation{Kind: "correspondence", Key: "evy-binary-build", Detail: err.Error()})
	} else {
		defer cleanup()
	}
	r.Rule = "inputs as for C06 (hand-written layouts, every evy program of /repo plain and decorated, generated programs plain / decorated / white-space widened), " +
		"plus top-level skeletons drawn from {stmt, comment, blank, func, on}^n (n <= 9) rendered as programs; plus byte-level variants (line-end conventions, " +
		"stray white-space / control / invalid bytes, BOM, final-newline count) of formatter outputs and sources through the binary (stdin, file, txtar member, fmt, fmt -w); only accepted inputs count; " +
		"non-trivial = at least 6 words and a block, a comment or a multi-line literal; distinct = distinct source text"
	c := &c07Ctx{model: model, r: r, bin: bin, maxBin: cfg.N(24, 500), cfg: cfg}
	if cfg.Replay != "" {
		if b, err := os.ReadFile(cfg.Replay); err == nil {
			var v struct {
				Input any `json:"input"`
			}
			if json.Unmarshal(b, &v) == nil {
				switch s := v.Input.(type) {
				case string:
					c07Check(c, fmtInput{s, "replay"})
					return
				case map[string]any:
					if q, ok := s["bytes_quoted"].(string); ok {
						if b, err := strconv.Unquote(q); err == nil {
							label, _ := s["variant"].(string)
							c07CheckBytes(c, byteVariant{label, b}, 3)
							return
						}
					}
					if t, ok := s["source"].(string); ok {
						c07Check(c, fmtInput{t, "replay"})
						return
					}
				}
			}
		}
		r.Note("replay file %s has no usable input", cfg.Replay)
	}
	for _, in := range fmtInputs(cfg, cfg.N(900, 20000), false) {
		c07Check(c, in)
	}
	// the two text predicates of the theorems (Format.shape_lines / ends_one_nl) against the harness's own
	// implementation, on formatter outputs damaged in the ways the property forbids
	c07ShapeCross(c, cfg.N(300, 5000))
	// byte-level variants (line-end conventions, stray control bytes, BOM, final-newline count ...) of formatter outputs and
	// of sources through the binary: stdin, file argument, txtar member, plain fmt, fmt -w (c07bytes.go)
	c07ByteStream(c, cfg.N(25, 500))
	// skeleton programs: every way blank lines, comments, statements and func/on definitions meet at top level
	nSkel := cfg.N(500, 8000)
	for i := 0; i < nSkel; i++ {
		c07Check(c, fmtInput{genSkeleton(cfg, i), "skeleton"})
	}
}

// c07ShapeCross damages formatted texts and compares the Coq predicates with shapeProblem.
func c07ShapeCross(c *c07Ctx, n int) {
	rng := c.cfg.Rng
	var bases []string
	for _, s := range append(append([]string{}, fmtCorpus...), CorpusPrograms()...) {
		if p, err := safeParse(s); err == nil {
			if f, err := safeFormat(p); err == nil && len(f) < 4000 {
				bases = append(bases, f)
			}
		}
		if len(bases) > 120 {
			break
		}
	}
	if len(bases) == 0 {
		return
	}
	for i := 0; i < n; i++ {
		t := bases[rng.Intn(len(bases))]
		lines := strings.Split(t, "\n")
		k := rng.Intn(len(lines))
		switch rng.Intn(9) {
		case 0:
			lines[k] += " "
		case 1:
			lines[k] += "\t"
		case 2:
			lines[k] = " " + lines[k]
		case 3:
			lines[k] = "  " + lines[k]
		case 4:
			lines = append(lines[:k], append([]string{"", ""}, lines[k:]...)...)
		case 5:
			lines = append(lines[:k], append([]string{"    "}, lines[k:]...)...)
		case 6:
			lines = append(lines, "")
		case 7:
			lines[k] = "\t" + lines[k]
		default: // undamaged
		}
		t = strings.Join(lines, "\n")
		if rng.Intn(12) == 0 {
			t = strings.TrimSuffix(t, "\n")
		}
		ans, err := c.model.Ask(Lst(Sym("shape"), Str(t)).String())
		if err != nil {
			c.r.Violate(Violation{Kind: "correspondence", Key: "model-failed", Detail: err.Error(), Input: t})
			return
		}
		x, err := ParseSX(ans)
		if err != nil || len(x.L) != 2 {
			c.r.Violate(Violation{Kind: "correspondence", Key: "model-failed", Detail: ans, Input: t})
			return
		}
		coqOK := x.L[0].S == "true" && x.L[1].S == "true"
		goProblem := shapeProblem(t)
		c.r.Dist("shape-cross:" + map[bool]string{true: "well-shaped", false: "damaged"}[goProblem == ""])
		if coqOK != (goProblem == "") {
			c.r.Violate(Violation{Kind: "correspondence", Key: "shape-predicate-differs",
				Detail: fmt.Sprintf("Format.shape_lines/ends_one_nl = %s/%s but the harness predicate says %q", x.L[0].S, x.L[1].S, goProblem), Input: t})
		}
	}
}

// genSkeleton renders a random word over {s, c, e, f, o} as a program.
func genSkeleton(cfg Config, seq int) string {
	n := 1 + cfg.Rng.Intn(9)
	var b strings.Builder
	nf := 0
	evs := []string{"down", "up", "key", "move", "animate", "input"}
	usedEv := map[string]bool{}
	for i := 0; i < n; i++ {
		switch k := cfg.Rng.Intn(10); {
		case k < 3:
			fmt.Fprintf(&b, "print %d\n", i)
		case k < 5:
			fmt.Fprintf(&b, "// comment %d\n", i)
		case k < 7:
			b.WriteString("\n")
		case k < 9:
			nf++
			fmt.Fprintf(&b, "func f%d_%d\n    print %d\nend\n", seq, nf, i)
		default:
			ev := evs[cfg.Rng.Intn(len(evs))]
			if usedEv[ev] {
				fmt.Fprintf(&b, "print \"x\"\n")
				continue
			}
			usedEv[ev] = true
			fmt.Fprintf(&b, "on %s\n    print %d\nend\n", ev, i)
		}
	}
	return b.String()
}

func init() { register("C07", runC07) }
