package main

// C08 — parsing, formatting and running are deterministic.
//
// Property oracle on the real code: every generated program is parsed,
// formatted, run (recording platform, fixed random seed, fixed input lines,
// fixed event list) and rendered to SVG c08InProc times in this process and
// once in each of c08Procs fresh processes (this binary re-executed with the
// hidden id "c08-child"); all observables must be byte-identical. Go
// randomises the start of every map iteration, so the repetitions are the
// adversarial schedule.
//
// Correspondence: for the sites that have an executable model (coq/Perm.v)
// every outcome observed on the implementation must be one of the outcomes
// the model produces over ALL permutations of the entries; combineTypes is
// compared exactly (per order) through the VerifCombineTypes hook.

import (
	"bytes"
	"encoding/json"
	"fmt"
	"math"
	"math/rand"
	"os"
	"os/exec"
	"regexp"
	"sort"
	"strings"
	"time"

	"evylang.dev/evy/pkg/cli"
	"evylang.dev/evy/pkg/evaluator"
	"evylang.dev/evy/pkg/parser"
)

const (
	c08InProc = 8
	c08Procs  = 3
	c08Seed   = 20240923
)

type c08Event struct {
	Name   string `json:"name"`
	Params []any  `json:"params"`
}

type c08Prog struct {
	Family   string     `json:"family"`
	Src      string     `json:"program"`
	Input    []string   `json:"input,omitempty"`
	Events   []c08Event `json:"events,omitempty"`
	Site     string     `json:"site,omitempty"` // model site, "" = oracle only
	Case     string     `json:"case,omitempty"` // S-expression sent to the model
	N        int        `json:"n,omitempty"`    // entries of the order-relevant Go map
	Dep      bool       `json:"dependent_by_construction,omitempty"`
	Fixed    bool       `json:"has_fixed_type,omitempty"`
	Witness  string     `json:"model_witness,omitempty"`
	Pristine bool       `json:"pristine_run,omitempty"` // additionally run alone in a process of its own
}

// c08Obs are the observables of one repetition.
type c08Obs struct {
	Parse  string `json:"parse"`  // parser.Errors.Error() (text and order), "" if accepted, "GOPANIC …" if Parse crashed
	Format string `json:"format"` // Program.Format()
	Class  string `json:"class"`
	Err    string `json:"err"`   // error text of the run
	Trace  string `json:"trace"` // Platform call trace incl. events
	SVG    string `json:"svg"`
	Names  string `json:"names"` // CalledBuiltinFuncs / EventHandlerNames as sorted sets
	// not compared (API slices whose order is documented nowhere; consumed as sets by pkg/wasm)
	NamesOrder string `json:"names_order"`
}

func (o c08Obs) fields() [][2]string {
	return [][2]string{{"parse", o.Parse}, {"format", o.Format}, {"class", o.Class}, {"err", o.Err}, {"trace", o.Trace}, {"svg", o.SVG}, {"names", o.Names}}
}

func (o c08Obs) key() string {
	var b strings.Builder
	for _, f := range o.fields() {
		b.WriteString(f[0] + "=" + f[1] + "\x1d")
	}
	return b.String()
}

// c08Observe runs one repetition on the real code.
func c08Observe(p c08Prog) (obs c08Obs) {
	evaluator.RandSource = rand.New(rand.NewSource(c08Seed))
	y := &budgetYielder{budget: 60000}
	plat := &recPlatform{yielder: y, Input: append([]string(nil), p.Input...)}
	var prog *parser.Program
	var ev *evaluator.Evaluator
	func() {
		defer func() {
			if r := recover(); r != nil {
				if prog == nil {
					obs.Parse = "GOPANIC " + fmt.Sprint(r)
					obs.Class = "parse-gopanic"
				} else {
					obs.Class = "gopanic"
					obs.Err = fmt.Sprint(r)
				}
			}
		}()
		pr, err := parser.Parse(p.Src, evaluator.BuiltinDecls())
		if err != nil {
			obs.Parse = err.Error()
			obs.Class = "parse-error"
			return
		}
		prog = pr
		obs.Format = prog.Format()
		ev = evaluator.NewEvaluator(plat)
		over := false
		y.onOver = func() { over = true; ev.Stopped = true }
		err = ev.Eval(prog)
		obs.Class = classifyErr(err)
		if err != nil {
			obs.Err = err.Error()
		}
		if over && obs.Class == "stopped" {
			obs.Class = "budget"
		}
		if obs.Class == "ok" {
			for _, e := range p.Events {
				if prog.EventHandlers[e.Name] == nil {
					continue
				}
				plat.eff("event:" + e.Name)
				if err := ev.HandleEvent(evaluator.Event{Name: e.Name, Params: e.Params}); err != nil {
					plat.eff("event-error:" + classifyErr(err) + ":" + err.Error())
					break
				}
			}
		}
	}()
	obs.Trace = joinLines(plat.Trace)
	if prog != nil {
		a := append([]string(nil), prog.CalledBuiltinFuncs...)
		obs.NamesOrder = strings.Join(a, ",")
		sort.Strings(a)
		obs.Names = "called=" + strings.Join(a, ",")
		if ev != nil {
			h := append([]string(nil), ev.EventHandlerNames...)
			obs.NamesOrder += ";" + strings.Join(h, ",")
			sort.Strings(h)
			obs.Names += ";handlers=" + strings.Join(h, ",")
		}
	}
	// SVG through pkg/cli + pkg/cli/svg (no yielder there: only for programs that
	// finished well within the budget and do not read stdin)
	if prog != nil && obs.Class != "budget" && obs.Class != "gopanic" && y.n < 20000 && !strings.Contains(p.Src, "read") {
		obs.SVG = c08SVG(p)
	}
	return obs
}

func c08SVG(p c08Prog) (out string) {
	defer func() {
		if r := recover(); r != nil {
			out = "GOPANIC " + fmt.Sprint(r)
		}
	}()
	evaluator.RandSource = rand.New(rand.NewSource(c08Seed))
	var text bytes.Buffer
	rt := cli.NewPlatform(cli.WithSVG("", "", ""), cli.WithSkipSleep(true), cli.WithOutputWriter(&text), cli.WithCls(func() {}))
	prog, err := parser.Parse(p.Src, evaluator.BuiltinDecls())
	if err != nil {
		return ""
	}
	ev := evaluator.NewEvaluator(rt)
	errText := ""
	if err := ev.Eval(prog); err != nil {
		errText = err.Error()
	}
	var svg bytes.Buffer
	if err := rt.WriteSVG(&svg); err != nil {
		errText += " writesvg:" + err.Error()
	}
	return svg.String() + "\x1e" + text.String() + "\x1e" + errText
}

// ---------- child process ----------

func runC08Child(cfg Config, r *Result) {
	in, out := os.Getenv("VERIF_C08_IN"), os.Getenv("VERIF_C08_OUT")
	b, err := os.ReadFile(in)
	if err != nil {
		fmt.Fprintln(os.Stderr, "c08-child:", err)
		os.Exit(3)
	}
	var progs []c08Prog
	if err := json.Unmarshal(b, &progs); err != nil {
		fmt.Fprintln(os.Stderr, "c08-child:", err)
		os.Exit(3)
	}
	res := make([]c08Obs, len(progs))
	for i, p := range progs {
		res[i] = c08Observe(p)
	}
	if err := writeJSON(out, res); err != nil {
		fmt.Fprintln(os.Stderr, "c08-child:", err)
		os.Exit(3)
	}
}

func c08RunChildren(progs []c08Prog, n int) ([][]c08Obs, error) {
	dir, err := os.MkdirTemp("", "c08")
	if err != nil {
		return nil, err
	}
	defer os.RemoveAll(dir)
	in := dir + "/in.json"
	// JSON turns float64 event parameters into float64 again and strings into strings: fine
	if err := writeJSON(in, progs); err != nil {
		return nil, err
	}
	exe, err := os.Executable()
	if err != nil {
		return nil, err
	}
	all := make([][]c08Obs, n)
	for i := 0; i < n; i++ {
		out := fmt.Sprintf("%s/out%d.json", dir, i)
		cmd := exec.Command(exe, "c08-child")
		cmd.Env = append(os.Environ(), "VERIF_C08_IN="+in, "VERIF_C08_OUT="+out)
		cmd.Stderr = os.Stderr
		done := make(chan error, 1)
		if err := cmd.Start(); err != nil {
			return nil, err
		}
		go func() { done <- cmd.Wait() }()
		select {
		case err := <-done:
			if err != nil {
				return nil, fmt.Errorf("child %d: %w", i, err)
			}
		case <-time.After(10 * time.Minute):
			cmd.Process.Kill()
			return nil, fmt.Errorf("child %d: timeout", i)
		}
		b, err := os.ReadFile(out)
		if err != nil {
			return nil, err
		}
		if err := json.Unmarshal(b, &all[i]); err != nil {
			return nil, err
		}
		if len(all[i]) != len(progs) {
			return nil, fmt.Errorf("child %d: %d results for %d programs", i, len(all[i]), len(progs))
		}
	}
	return all, nil
}

// ---------- classification of a divergence ----------

func sortedLines(s string) string {
	l := strings.Split(s, "\n")
	sort.Strings(l)
	return strings.Join(l, "\n")
}

func c08Classify(p c08Prog, variants []c08Obs, inproc []string, pristine string) (key, detail string) {
	// state surviving from one run to the next in the same process: the in-process
	// runs settle (#1.. identical) but differ from run #0 or from the run in a pristine process
	settled := len(inproc) >= 4
	for _, k := range inproc[1:] {
		if k != inproc[1] {
			settled = false
		}
	}
	leak := settled && (inproc[0] != inproc[1] || (pristine != "" && pristine != inproc[1]))
	if strings.HasPrefix(p.Family, "global-state") || p.Family == "corpus-global-state" {
		leak = leak || (pristine != "" && len(variants) > 1)
	}
	differ := map[string]bool{}
	for _, f := range variants[0].fields() {
		for _, v := range variants[1:] {
			for _, g := range v.fields() {
				if g[0] == f[0] && g[1] != f[1] {
					differ[f[0]] = true
				}
			}
		}
	}
	any := func(pred func(o c08Obs) bool) bool {
		for _, v := range variants {
			if pred(v) {
				return true
			}
		}
		return false
	}
	switch {
	case differ["parse"]:
		sameSet := true
		for _, v := range variants[1:] {
			if sortedLines(v.Parse) != sortedLines(variants[0].Parse) {
				sameSet = false
			}
		}
		if sameSet {
			return "validateScope-error-order", "the same parse errors are reported in different orders (validateScope ranges over the Go map scope.vars)"
		}
		allCrash := true
		for _, v := range variants {
			if !strings.HasPrefix(v.Parse, "GOPANIC internal error") || !strings.Contains(v.Parse, "incompatible types") {
				allCrash = false
			}
		}
		if allCrash {
			return "wrapAny-panic-location-order", "Parse crashes in wrapAny on every run (internal error, the C03/C04 defect) but the location named in the crash message differs: with two or more offending values the first one met by `for key, val := range mapLit.Pairs { … wrapAny(val, sub) }` wins"
		}
		if any(func(o c08Obs) bool { return strings.Contains(o.Parse, "incompatible types") }) {
			return "parseMapLiteral-combineTypes-order", "Parse crashes (wrapAny internal error) or accepts depending on the order in which parseMapLiteral hands the value types of mapLit.Pairs to combineTypes"
		}
		samePos := true
		for _, v := range variants[1:] {
			if c08ErrPositions(v.Parse) != c08ErrPositions(variants[0].Parse) {
				samePos = false
			}
		}
		if samePos && !any(func(o c08Obs) bool { return strings.HasPrefix(o.Parse, "GOPANIC") }) {
			return "parse-error-text-differs", "the same program is rejected at the same positions but the TEXT of a parse error differs between repetitions (a message built while ranging over a Go map: p.funcs, scope.vars, EventHandlers, …)"
		}
		return "parse-result-differs", "parse errors differ between repetitions"
	case differ["format"]:
		return "format-differs", "Format() output differs between repetitions"
	case p.Family == "map-literal-types" || any(func(o c08Obs) bool { return strings.Contains(o.Err+o.SVG, "incompatible types") }):
		return "parseMapLiteral-combineTypes-order", "the element type that parseMapLiteral computes for a map literal (visible through typeof, or a wrapAny internal error while parsing) depends on the order in which the value types of mapLit.Pairs reach combineTypes"
	case any(func(o c08Obs) bool { return strings.Contains(o.Err+o.SVG, "Equals called with") }):
		return "mapValEquals-panic-or-false", "map == map panics (internal error in Equals on an ill-typed value) or yields false depending on which key mapVal.Equals visits first"
	case (differ["err"] || differ["svg"]) && !differ["trace"] && any(func(o c08Obs) bool {
		return strings.Contains(o.Err+o.SVG, "bad arguments") && strings.Contains(o.Err+o.SVG, "property")
	}):
		return "parseFontProps-error-choice", "font with several bad properties reports a different one from run to run (parseFontProps ranges over arg.Pairs)"
	case (differ["trace"] || differ["svg"]) && regexp.MustCompile(`\]\)?\s*\*\s*\d`).MatchString(p.Src) && strings.Contains(p.Src, "{"):
		return "deepCopy-map-key-order", "a map that was deep-copied by array repetition prints / iterates its keys in a different order from run to run (evaluator.deepCopy must reproduce the source's Order)"
	case leak:
		return "state-leaks-across-runs", "a run in a process that has already run a program differs from the same run in a pristine process: evaluator/parser state survives from one run to the next (every run uses a fresh NewEvaluator and Platform)"
	case differ["trace"] || differ["svg"] || differ["err"] || differ["class"]:
		if strings.Contains(p.Src, "{") && regexp.MustCompile(`\{[^}]*:\s*\(`).MatchString(p.Src) {
			return "evalMapLiteral-eval-order", "the values of a map literal are evaluated in a different order from run to run (evalMapLiteral ranges over m.Pairs): effects and the reported error vary"
		}
		return "run-result-differs", "platform trace / error / SVG differ between repetitions"
	case differ["names"]:
		return "name-sets-differ", "CalledBuiltinFuncs / EventHandlerNames differ as sets"
	}
	return "", ""
}

// ---------- projections compared with the model ----------

var (
	reUnused   = regexp.MustCompile(`^line (\d+) column (\d+): "([^"]*)" declared but not used$`)
	reFontKey  = regexp.MustCompile(`property "([^"]*)"`)
	reTraceNum = regexp.MustCompile(`^print:call (-?\d+)\n$`)
)

func c08ModelObs(p c08Prog, o c08Obs) string {
	switch p.Site {
	case "validateScope":
		if o.Parse == "" {
			return "()" // accepted: no unused variable
		}
		var l []SX
		for _, line := range strings.Split(o.Parse, "\n") {
			m := reUnused.FindStringSubmatch(line)
			if m == nil {
				return "other:" + line
			}
			l = append(l, Lst(SX{Kind: "int", S: m[1]}, SX{Kind: "int", S: m[2]}, Str(m[3])))
		}
		return LstOf(l).String()
	case "evalMapLiteral":
		l := []SX{Sym("ok")}
		if o.Class != "ok" {
			l[0] = Sym("err")
		}
		for _, t := range strings.Split(o.Trace, "\x1e") {
			if m := reTraceNum.FindStringSubmatch(t); m != nil {
				l = append(l, SX{Kind: "int", S: m[1]})
			}
		}
		return LstOf(l).String()
	case "fontProps":
		if o.Class == "ok" {
			return "(ok)"
		}
		m := reFontKey.FindStringSubmatch(o.Err)
		k := ""
		if m != nil {
			k = m[1]
		}
		switch {
		case strings.Contains(o.Err, "unknown property"):
			return Lst(Sym("unknown"), Str(k)).String()
		case strings.Contains(o.Err, "greater than 0"):
			return Lst(Sym("positive"), Str(k)).String()
		case strings.Contains(o.Err, `to be "top"`):
			return Lst(Sym("enum"), Str(k)).String()
		case strings.Contains(o.Err, "of type"):
			return Lst(Sym("type"), Str(k)).String()
		}
		return "other:" + o.Err
	case "equals":
		if o.Class == "gopanic" && strings.Contains(o.Err, "Equals called with") {
			return "panic"
		}
		t := strings.Split(o.Trace, "\x1e")
		return strings.TrimSuffix(strings.TrimPrefix(t[len(t)-1], "print:"), "\n")
	case "combine-all":
		if strings.HasPrefix(o.Parse, "GOPANIC") {
			return "panic"
		}
		t := strings.Split(o.Trace, "\x1e")
		return strings.TrimSuffix(strings.TrimPrefix(t[len(t)-1], "print:"), "\n")
	}
	return ""
}

// model answers → comparable strings
func c08ModelSet(p c08Prog, ans SX) map[string]bool {
	set := map[string]bool{}
	for _, x := range ans.L {
		switch p.Site {
		case "equals":
			set[x.S] = true
		case "combine-all":
			set["{}"+c08TypeString(x)] = true
		default:
			set[x.String()] = true
		}
	}
	return set
}

// evy's spelling of a model type after `m := {…}` (Type.infer turns the empty
// literals' types into []any / {}any)
func c08TypeString(x SX) string {
	if x.Kind == "sym" {
		switch x.S {
		case "str":
			return "string"
		case "earr":
			return "[]any"
		case "emap":
			return "{}any"
		}
		return x.S
	}
	if len(x.L) == 3 {
		pre := "{}"
		if x.L[0].S == "arr" {
			pre = "[]"
		}
		return pre + c08TypeString(x.L[2])
	}
	return "?"
}

// ---------- combineTypes: exact correspondence through the hook ----------

func c08RandTy(rng *rand.Rand, depth int) SX {
	k := rng.Intn(20)
	switch {
	case k < 3:
		return Sym("num")
	case k < 5:
		return Sym("str")
	case k < 6:
		return Sym("bool")
	case k < 7:
		return Sym("any")
	case k < 9:
		return Sym("earr")
	case k < 10:
		return Sym("emap")
	case k == 10 && depth > 0:
		return Sym("none")
	}
	if depth >= 3 {
		return Sym([]string{"num", "str"}[rng.Intn(2)])
	}
	kind := "arr"
	if rng.Intn(3) == 0 {
		kind = "map"
	}
	fixed := int64(0)
	if rng.Intn(4) == 0 {
		fixed = 1
	}
	return Lst(Sym(kind), Int(fixed), c08RandTy(rng, depth+1))
}

func c08GoTy(x SX) *parser.Type {
	if x.Kind == "sym" {
		switch x.S {
		case "num":
			return parser.NUM_TYPE
		case "str":
			return parser.STRING_TYPE
		case "bool":
			return parser.BOOL_TYPE
		case "any":
			return parser.ANY_TYPE
		case "none":
			return parser.NONE_TYPE
		case "earr":
			return parser.EMPTY_ARRAY
		case "emap":
			return parser.EMPTY_MAP
		}
	}
	n := parser.MAP
	if x.L[0].S == "arr" {
		n = parser.ARRAY
	}
	return &parser.Type{Name: n, Fixed: x.L[1].S == "1", Sub: c08GoTy(x.L[2])}
}

func c08TySX(t *parser.Type) SX {
	switch {
	case t == nil:
		return Sym("nil")
	case t == parser.EMPTY_ARRAY:
		return Sym("earr")
	case t == parser.EMPTY_MAP:
		return Sym("emap")
	}
	switch t.Name {
	case parser.NUM:
		return Sym("num")
	case parser.STRING:
		return Sym("str")
	case parser.BOOL:
		return Sym("bool")
	case parser.ANY:
		return Sym("any")
	case parser.NONE:
		return Sym("none")
	case parser.ARRAY, parser.MAP:
		k := "map"
		if t.Name == parser.ARRAY {
			k = "arr"
		}
		f := int64(0)
		if t.Fixed {
			f = 1
		}
		return Lst(Sym(k), Int(f), c08TySX(t.Sub))
	}
	return Sym("?")
}

func c08CombineDirect(cfg Config, r *Result, model *Model) {
	n := cfg.N(3000, 60000)
	for i := 0; i < n; i++ {
		k := 1 + cfg.Rng.Intn(5)
		tys := make([]SX, k)
		// bias: several entries share a shape so that Equals / Fixed interplay is exercised
		base := c08RandTy(cfg.Rng, 0)
		for j := range tys {
			if cfg.Rng.Intn(3) == 0 {
				tys[j] = base
			} else {
				tys[j] = c08RandTy(cfg.Rng, 0)
			}
		}
		caseSX := LstOf(append([]SX{Sym("combine")}, tys...))
		got := func() (s string) {
			defer func() {
				if rec := recover(); rec != nil {
					s = "gopanic:" + fmt.Sprint(rec)
				}
			}()
			gt := make([]*parser.Type, k)
			for j := range tys {
				gt[j] = c08GoTy(tys[j])
			}
			return c08TySX(parser.VerifCombineTypes(gt)).String()
		}()
		ans, err := model.Ask(caseSX.String())
		r.Count("combine:"+caseSX.String(), k >= 2)
		r.Dist("combineTypes-direct")
		r.Validated++
		if err != nil || ans != got {
			r.Violate(Violation{Kind: "correspondence", Key: "model-combineTypes-differs", Detail: "combineTypes (hook) and the model disagree on this argument order",
				Input: map[string]any{"case": caseSX.String()}, Impl: got, Model: ans})
		}
	}
}

// ---------- generators ----------

var c08Keys = []string{"a", "b", "c", "d", "e", "f", "g", "h", "i", "j", "k", "l"}

func c08PickN(rng *rand.Rand) int {
	// ≥ 4 entries; 8 (a full bucket: every start offset gives a different order) half of the time
	switch k := rng.Intn(10); {
	case k < 5:
		return 8
	case k < 7:
		return 7
	case k < 8:
		return 6
	case k < 9:
		return 5
	}
	return 4
}

func genUnused(rng *rand.Rand) c08Prog {
	n := c08PickN(rng)
	var b strings.Builder
	var ents []SX
	unused := 0
	nested := rng.Intn(3) == 0
	indent := ""
	line := 1
	if nested {
		switch rng.Intn(3) {
		case 0:
			b.WriteString("func g\n")
		case 1:
			b.WriteString("if true\n")
		default:
			b.WriteString("for q := range 1\n")
		}
		indent = "    "
		line++
	}
	used := []string{}
	for i := 0; i < n; i++ {
		name := fmt.Sprintf("v%d", i)
		isUsed := rng.Intn(5) == 0
		fmt.Fprintf(&b, "%s%s := %d\n", indent, name, i)
		ents = append(ents, Lst(Str(name), Int(int64(line)), Int(int64(len(indent)+1)), Bool(isUsed)))
		line++
		if isUsed {
			used = append(used, name)
		} else {
			unused++
		}
	}
	for _, u := range used {
		fmt.Fprintf(&b, "%sprint %s\n", indent, u)
	}
	if nested {
		b.WriteString("end\n")
	}
	p := c08Prog{Family: "unused-vars", Src: b.String(), N: n, Dep: unused >= 2}
	if nested {
		p.Family = "unused-vars-nested"
		// a second scope with its own unused variables
		p.Src += "w1 := 1\nw2 := 2\nw3 := 3\n"
	} else if n <= 6 {
		p.Site = "validateScope"
		p.Case = LstOf(append([]SX{Sym("validateScope")}, ents...)).String()
	}
	return p
}

func genMapLit(rng *rand.Rand) c08Prog {
	n := c08PickN(rng)
	var b strings.Builder
	b.WriteString("func f:num n:num\n    print \"call\" n\n    return n\nend\narr := [1]\nprint arr\n")
	b.WriteString("m := {")
	var ents []SX
	effects, panics := 0, 0
	for i := 0; i < n; i++ {
		k := c08Keys[i]
		switch r := rng.Intn(10); {
		case r < 7:
			fmt.Fprintf(&b, "%s:(f %d) ", k, i+1)
			ents = append(ents, Lst(Str(k), Sym("print"), Int(int64(i+1))))
			effects++
		case r < 9:
			fmt.Fprintf(&b, "%s:%d ", k, i+1)
			ents = append(ents, Lst(Str(k), Sym("pure"), Int(int64(i+1))))
		default:
			fmt.Fprintf(&b, "%s:arr[7] ", k)
			ents = append(ents, Lst(Str(k), Sym("panic"), Int(0)))
			panics++
		}
	}
	b.WriteString("}\nprint m\nfor k := range m\n    print k m[k]\nend\n")
	// order dependent by construction until /repo 7307e12 (evalMapLiteral now ranges over m.Order)
	_, _ = effects, panics
	p := c08Prog{Family: "map-literal-effects", Src: b.String(), N: n}
	if n <= 6 {
		p.Site = "evalMapLiteral"
		p.Case = LstOf(append([]SX{Sym("evalMapLiteral")}, ents...)).String()
	}
	return p
}

var c08FontProps = []string{"family", "size", "weight", "style", "baseline", "align", "letterspacing"}

func genFont(rng *rand.Rand) c08Prog {
	perm := rng.Perm(len(c08FontProps))
	n := 3 + rng.Intn(5)
	var b strings.Builder
	b.WriteString("font {")
	var ents []SX
	bad := map[string]bool{}
	hasNum, hasStr := false, false
	add := func(k, lit string, sx SX, isBad bool) {
		fmt.Fprintf(&b, "%s:%s ", k, lit)
		ents = append(ents, sx)
		if isBad {
			bad[k] = true
		}
	}
	for i := 0; i < n && i < len(perm); i++ {
		k := c08FontProps[perm[i]]
		isStr := k == "family" || k == "style" || k == "baseline" || k == "align"
		switch r := rng.Intn(10); {
		case r < 4: // wrong kind
			if isStr {
				add(k, "3", Lst(Str(k), Sym("n"), Int(3)), true)
				hasNum = true
			} else {
				add(k, `"x"`, Lst(Str(k), Sym("s"), Str("x")), true)
				hasStr = true
			}
		case r < 5:
			add(k, "true", Lst(Str(k), Sym("o"), Int(0)), true)
		case r < 6 && (k == "size" || k == "weight"):
			add(k, "-2", Lst(Str(k), Sym("n"), Int(-2)), true)
			hasNum = true
		case r < 6 && (k == "align" || k == "baseline"):
			add(k, `"weird"`, Lst(Str(k), Sym("s"), Str("weird")), true)
			hasStr = true
		default: // good
			switch {
			case k == "align":
				add(k, `"center"`, Lst(Str(k), Sym("s"), Str("center")), false)
				hasStr = true
			case k == "baseline":
				add(k, `"top"`, Lst(Str(k), Sym("s"), Str("top")), false)
				hasStr = true
			case isStr:
				add(k, `"serif"`, Lst(Str(k), Sym("s"), Str("serif")), false)
				hasStr = true
			default:
				add(k, "7", Lst(Str(k), Sym("n"), Int(7)), false)
				hasNum = true
			}
		}
	}
	if rng.Intn(4) == 0 {
		add("colour", "1", Lst(Str("colour"), Sym("n"), Int(1)), true)
		hasNum = true
	}
	// keep the literal's element type `any` (mixed kinds)
	if !hasNum || !hasStr {
		add("zz", "false", Lst(Str("zz"), Sym("o"), Int(0)), true)
	}
	b.WriteString("}\nmove 10 10\ntext \"hello\"\n")
	return c08Prog{Family: "font-bad-props", Src: b.String(), N: len(ents), Dep: len(bad) >= 2, Site: "fontProps",
		Case: LstOf(append([]SX{Sym("fontProps")}, ents...)).String()}
}

type c08Pal struct {
	lit string
	ty  SX
}

var c08Palette = []c08Pal{
	{"[1]", Lst(Sym("arr"), Int(0), Sym("num"))},
	{`["s"]`, Lst(Sym("arr"), Int(0), Sym("str"))},
	{"x", Lst(Sym("arr"), Int(1), Sym("num"))},
	{"[]", Sym("earr")},
	{"[[1]]", Lst(Sym("arr"), Int(0), Lst(Sym("arr"), Int(0), Sym("num")))},
	{"[[]]", Lst(Sym("arr"), Int(0), Sym("earr"))},
	{"1", Sym("num")},
	{`"t"`, Sym("str")},
	{"{}", Sym("emap")},
	{"{k:1}", Lst(Sym("map"), Int(0), Sym("num"))},
	{"y", Lst(Sym("map"), Int(1), Sym("num"))},
	{"[true]", Lst(Sym("arr"), Int(0), Sym("bool"))},
}

func genCombine(rng *rand.Rand) c08Prog {
	n := 3 + rng.Intn(3)
	var b strings.Builder
	b.WriteString("x := [1]\ny := {q:2}\nprint x y\nm := {")
	var tys []SX
	fixed := false
	// bias towards arrays so that combination (not the early `any`) happens
	for i := 0; i < n; i++ {
		j := rng.Intn(len(c08Palette))
		if rng.Intn(2) == 0 {
			j = rng.Intn(6)
		}
		pal := c08Palette[j]
		fmt.Fprintf(&b, "%s:%s ", c08Keys[i], pal.lit)
		tys = append(tys, pal.ty)
		if pal.lit == "x" || pal.lit == "y" {
			fixed = true
		}
	}
	b.WriteString("}\nprint m\nprint (typeof m)\n")
	// oracle only: combineTypes was rewritten in /repo 0e214ac and is called in source order since e6ebb6a
	_ = tys
	return c08Prog{Family: "map-literal-types", Src: b.String(), N: n, Dep: fixed, Fixed: fixed}
}

func genEquals(rng *rand.Rand) c08Prog {
	n := c08PickN(rng)
	if n > 6 {
		n = 4 + rng.Intn(3)
	}
	var m1, m2 strings.Builder
	var ents []SX
	ill := false // `x := [] * 3` is an array since /repo f8788c6: no ill-typed value can be built any more
	dep := false
	hasFalse, hasPanic := false, false
	for i := 0; i < n; i++ {
		k := c08Keys[i]
		switch {
		case ill && (i == 0 || rng.Intn(5) == 0):
			fmt.Fprintf(&m1, "%s:x ", k)
			fmt.Fprintf(&m2, "%s:2 ", k)
			ents = append(ents, Lst(Str(k), Lst(), Int(2)))
			hasPanic = true
		case rng.Intn(2) == 0:
			fmt.Fprintf(&m1, "%s:%d ", k, i)
			fmt.Fprintf(&m2, "%s:%d ", k, i)
			ents = append(ents, Lst(Str(k), Int(int64(i)), Int(int64(i))))
		default:
			fmt.Fprintf(&m1, "%s:%d ", k, i)
			fmt.Fprintf(&m2, "%s:%d ", k, i+10)
			ents = append(ents, Lst(Str(k), Int(int64(i)), Int(int64(i+10))))
			hasFalse = true
		}
	}
	dep = hasFalse && hasPanic
	src := "m1 := {" + m1.String() + "}\nm2 := {" + m2.String() + "}\nprint (len m1) (len m2)\nprint (m1 == m2)\n"
	return c08Prog{Family: "map-equality", Src: src, N: n, Dep: dep, Site: "equals",
		Case: LstOf(append([]SX{Sym("equals")}, ents...)).String()}
}

// genDeepCopy: array repetition deep-copies its elements (evaluator.deepCopy);
// the copies of maps with 4-8 keys are then printed, ranged over, compared,
// type-asserted out of any, and mutated — every one of these exposes the key
// order of the COPY (deepCopy must reproduce the source's Order).
func genDeepCopy(rng *rand.Rand) c08Prog {
	n := c08PickN(rng)
	perm := rng.Perm(n)
	var m1, m2 strings.Builder
	for i := 0; i < n; i++ {
		fmt.Fprintf(&m1, "%s:%d ", c08Keys[perm[i]], i)
		fmt.Fprintf(&m2, "%s:%d ", c08Keys[(perm[i]+3)%len(c08Keys)], i*7)
	}
	reps := 2 + rng.Intn(3)
	var b strings.Builder
	fmt.Fprintf(&b, "m := {%s}\nm2 := {%s}\n", m1.String(), m2.String())
	fmt.Fprintf(&b, "row := [m] * %d\nprint row\nprint row[1] (typeof row) (len row)\n", reps)
	b.WriteString("for k := range row[1]\n    print k row[1][k]\nend\n")
	b.WriteString("print (row[0] == row[1]) (row[1] == m) (row[0] == m2)\n")
	shapes := []string{
		// nested arrays of maps
		"nested := [[m m2] [m]] * 2\nprint nested\nprint nested[2][1] nested[3][0] (typeof nested)\nfor k := range nested[3][0]\n    print k\nend\nfor k := range nested[0][1]\n    print k nested[0][1][k]\nend\n",
		// maps held in any
		"aa := [m 1 \"s\" m2] * 2\nprint aa (typeof aa)\nmm := aa[4].({}num)\nprint mm (typeof aa[7])\nfor k := range mm\n    print k mm[k]\nend\nprint (aa[0] == aa[4]) (aa[3] == aa[7])\n",
		// maps of maps, and maps holding arrays of maps
		"mx := {p:m q:m2 r:{z:1 y:2 x:3 w:4 v:5}}\nbb := [mx] * 2\nprint bb[1] (typeof bb)\nfor k := range bb[1]\n    print k bb[1][k]\n    for j := range bb[1][k]\n        print j\n    end\nend\n",
		// the copy is independent and keeps growing in insertion order
		"row[1].zz = 99\ndel row[0] \"" + c08Keys[perm[0]] + "\"\nrow[1][\"new key\"] = 5\nprint row m\nfor k := range row[1]\n    print k\nend\n",
		// repetition of a repetition, slices and concatenation of copies
		"big := ([m2] * 2 + [m]) * 2\nprint big[3:] (len big)\nfor el := range big\n    for k := range el\n        print k el[k]\n    end\nend\n",
		// empty and single-key maps, repetition count 0 and 1
		"ee := [{} {only:1} m] * 1\nprint ee (typeof ee) ([m] * 0)\nfor k := range ee[2]\n    print k\nend\n",
		// passing a copy through a function and test
		"func keys:[]string mm:{}num\n    r:[]string\n    for k := range mm\n        r = r + [k]\n    end\n    return r\nend\nprint (keys row[1]) (keys m) (join (keys row[0]) \",\")\ntest (keys row[1]) (keys m)\ntest row[0] m\n",
	}
	p := rng.Perm(len(shapes))
	for _, i := range p[:2+rng.Intn(4)] {
		b.WriteString(shapes[i])
	}
	return c08Prog{Family: "map-deepcopy-by-repetition", Src: b.String(), N: n}
}

// genGlobalState: programs that OBSERVE the predefined globals err / errmsg /
// pi before any conversion and END in a state different from the initial one
// (last conversion failing; success after failure; explicit assignment to the
// globals). Any evaluator state that survives from one run to the next run in
// the same process shows as a difference between the repetitions, and against
// the run in a pristine process.
func genGlobalState(rng *rand.Rand) c08Prog {
	var b strings.Builder
	heads := []string{
		"print err errmsg pi\n",
		"print (err == false) (errmsg == \"\") (len errmsg) (pi > 3.14) (pi < 3.15)\n",
		"if errmsg != \"\"\n    print \"stale\" errmsg[0] errmsg[-1]\nelse\n    print \"clean\"\nend\n",
		"if err\n    print \"err already set:\" errmsg\nend\nprint (sprintf \"%v|%v|%v\" err errmsg (round pi*1000))\n",
		"e0 := err\nm0 := errmsg\np0 := pi\nprint e0 m0 p0 (typeof err) (typeof errmsg)\n",
	}
	for _, i := range rng.Perm(len(heads))[:1+rng.Intn(3)] {
		b.WriteString(heads[i])
	}
	b.WriteString("func show tag:string\n    print tag err errmsg pi\nend\n")
	bad := []string{"n%[1]d := str2num \"12x\"\nprint n%[1]d\n", "n%[1]d := str2num \"\"\nprint n%[1]d\n", "b%[1]d := str2bool \"maybe\"\nprint b%[1]d\n", "n%[1]d := str2num \"1e999x\"\nprint n%[1]d\n", "b%[1]d := str2bool \"2\"\nprint b%[1]d\n"}
	good := []string{"n%[1]d := str2num \"42\"\nprint n%[1]d\n", "b%[1]d := str2bool \"true\"\nprint b%[1]d\n", "n%[1]d := str2num \"-0.5\"\nprint n%[1]d\n"}
	mid := []string{
		"show \"mid\"\n",
		"test err false\n",
		"test true\n",
		"test (len errmsg) 0\n",
		"for i := range 2\n    q := str2num (sprintf \"%vz\" i)\n    print i q err\nend\n",
		"print [err] {e:errmsg p:pi}\n",
	}
	k := 0
	stmt := func(l []string) {
		k++
		fmt.Fprintf(&b, l[rng.Intn(len(l))], k)
		if rng.Intn(2) == 0 {
			fmt.Fprintf(&b, "show \"after %d\"\n", k)
		}
	}
	handlers := rng.Intn(3) == 0
	if handlers {
		b.WriteString("on key c:string\n    print \"key\" c err errmsg\n    z := str2num c\n    print z err errmsg\nend\n")
		b.WriteString("on down x:num y:num\n    print \"down\" x y err errmsg pi\n    errmsg = \"handler\"\nend\n")
	}
	for i := 0; i < 1+rng.Intn(4); i++ {
		switch rng.Intn(4) {
		case 0:
			stmt(good)
		case 1:
			b.WriteString(mid[rng.Intn(len(mid))])
		default:
			stmt(bad)
		}
	}
	ending := "last-conversion-fails"
	switch r := rng.Intn(10); {
	case r < 5:
		stmt(bad)
	case r < 7:
		stmt(bad)
		stmt(good)
		ending = "success-after-failure"
	case r < 8:
		b.WriteString("pi = 3\nprint pi\n")
		ending = "assign-pi"
	case r < 9:
		b.WriteString("err = true\nerrmsg = \"mine\"\nshow \"assigned\"\n")
		ending = "assign-err"
	default:
		stmt(bad)
		b.WriteString("pi = pi * 2\nerrmsg = errmsg + \"!\"\n")
		ending = "fail-then-assign"
	}
	p := c08Prog{Family: "global-state:" + ending, Src: b.String(), Pristine: true}
	if handlers {
		p.Events = []c08Event{{"key", []any{"7"}}, {"down", []any{1.0, 2.0}}, {"key", []any{"x"}}}
	}
	return p
}

func genMapsMisc(rng *rand.Rand) c08Prog {
	n := c08PickN(rng)
	perm := rng.Perm(n)
	var a, b2 strings.Builder
	for i := 0; i < n; i++ {
		fmt.Fprintf(&a, "%s:%d ", c08Keys[i], i)
		j := perm[i]
		v := j
		if rng.Intn(6) == 0 {
			v = j + 100
		}
		fmt.Fprintf(&b2, "%s:%d ", c08Keys[j], v)
	}
	src := "m1 := {" + a.String() + "}\nm2 := {" + b2.String() + "}\n" +
		"print m1 m2 (m1 == m2) (m1 != m2)\n" +
		"n1 := {p:m1 q:m2 r:{z:[1 2 3] y:[]}}\nprint n1 (typeof n1)\n" +
		"for k := range m2\n    print k m2[k] (has m1 k)\nend\n" +
		"del m1 \"" + c08Keys[rng.Intn(n)] + "\"\nm1.zz = 5\nprint m1 (len m1)\n" +
		"func cp:{}num mm:{}num\n    r:{}num\n    for k := range mm\n        r[k] = mm[k]\n    end\n    return r\nend\n" +
		"m3 := cp m2\nm3.new = 1\nprint m3 m2 (m3 == m2)\n" +
		"aa := [m1 m2 m3]\nbb := aa + [m1]\nprint bb (aa == bb)\n" +
		"test m2 m2\ntest m1 m2\n"
	return c08Prog{Family: "maps-compared-printed-tested", Src: src, N: n}
}

var c08AllEvents = []c08Event{
	{"down", []any{1.0, 2.0}}, {"move", []any{3.5, 4.0}}, {"up", []any{5.0, 6.0}}, {"key", []any{"a"}},
	{"input", []any{"id1", "val"}}, {"animate", []any{0.25}}, {"down", []any{7.0, 8.0}}, {"key", []any{"Enter"}},
}

func genEvents(rng *rand.Rand) c08Prog {
	hs := []string{"on down x:num y:num\n    cnt = cnt + 1\n    print \"down\" x y cnt\n    move x y\n    circle 2\nend\n",
		"on up\n    cnt = cnt + 10\n    print \"up\" cnt\nend\n",
		"on move x:num y:num\n    line x y\n    print \"move\" (rand 100)\nend\n",
		"on key k:string\n    print \"key\" k (len k)\n    m[k] = cnt\n    print m\nend\n",
		"on input id:string val:string\n    print id val\nend\n",
		"on animate t:num\n    clear \"white\"\n    rect t 3\n    print \"t\" t\nend\n"}
	perm := rng.Perm(len(hs))
	k := 3 + rng.Intn(4)
	src := "cnt := 0\nm:{}num\nprint \"start\" cnt m\ncls\nmove 1 1\nline 2 2\ncolor \"red\"\nwidth 2\n"
	for _, i := range perm[:k] {
		src += hs[i]
	}
	return c08Prog{Family: "event-handlers", Src: src, N: k, Events: c08AllEvents}
}

func genValid(rng *rand.Rand) c08Prog {
	var b strings.Builder
	input := []string{"first line", "second"}
	if rng.Intn(2) == 0 {
		b.WriteString("s := read\nt := read\nprint \"in\" s t\n")
	} else {
		input = nil // programs without read are also rendered to SVG through pkg/cli
	}
	b.WriteString("total := 0\nfor i := range 5\n    r := rand 1000\n    total = total + r\n    print i r (rand1 < 2)\nend\nprint total\n")
	stmts := []string{
		"move 10 20\nline 30 40\nrect 5 6\ncircle 7\n",
		"color \"blue\"\nwidth 3\nfill \"none\"\nstroke \"green\"\nlinecap \"butt\"\ndash 3 2 1\n",
		"poly [1 2] [3 4] [5 (rand 50)]\nellipse 50 50 10 20\nellipse 10 10 5 5 45 0 180\n",
		"font {family:\"serif\" size:9 weight:700 style:\"italic\" baseline:\"top\" align:\"center\" letterspacing:1}\ntext \"hello <&> world\"\n",
		"clear \"hsl(0deg 100% 50%)\"\ngridn 20 \"gray\"\n",
		"words := split \"the quick brown fox\" \" \"\nfor w := range words\n    print (upper w) (len w) (index w \"o\")\nend\nprint (join words \"-\") (sprintf \"%5.2f|%s|%v\" 3.14159 \"x\" words)\n",
		"mm := {}\nmm.a = 1\nmm[\"b c\"] = [1 2]\nmm.c = {x:true}\nprint mm (typeof mm) (len mm)\nfor k := range mm\n    print k mm[k]\nend\n",
		"n := str2num \"12x\"\nprint n err errmsg\nb := str2bool \"true\"\nprint b err\n",
		"a := [3 1 2] * 2\nprint a[1:] a[:2] a[-1] (a == [3 1 2 3 1 2])\nwhile (len a) > 2\n    a = a[1:]\nend\nprint a\n",
		"sleep 0.001\nprint (floor 2.7) (ceil 2.1) (round 2.5) (min 1 2) (max 1 2) (pow 2 10) (sqrt 2) (atan2 1 1) (log 10) (sin 1) (cos 1)\n",
		"func fib:num n:num\n    if n < 2\n        return n\n    end\n    return (fib n-1) + (fib n-2)\nend\nprint (fib 12)\n",
	}
	perm := rng.Perm(len(stmts))
	for _, i := range perm[:3+rng.Intn(5)] {
		b.WriteString(stmts[i])
	}
	if rng.Intn(3) == 0 {
		b.WriteString([]string{"exit 3\n", "panic \"boom\"\n", "zz := [1]\nprint zz[4]\n", "test 1 2 \"msg\"\ntest true\n"}[rng.Intn(4)])
	}
	return c08Prog{Family: "valid-mixed", Src: b.String(), Input: input}
}

var c08Soup = []string{"func", "end", "if", "else", "for", "range", "while", "on", "return", "break", ":=", "=", "==", ":", "{", "}", "[", "]", "(", ")",
	"\"s\"", "1", "x", "m", "print", "num", "any", "\n", "\n", " ", ".", "+", "-", "*", "//c", "true", "and", "!", "{a:1 b:2 c:3 d:4}", "v1 := 1\n", "v2 := 2\n", "v3 := 3\n"}

func genMalformed(rng *rand.Rand, base func(*rand.Rand) c08Prog) c08Prog {
	p := base(rng)
	src := p.Src
	for k := 0; k < 1+rng.Intn(3); k++ {
		if len(src) == 0 {
			break
		}
		i := rng.Intn(len(src))
		switch rng.Intn(4) {
		case 0: // delete a span
			j := i + rng.Intn(6)
			if j > len(src) {
				j = len(src)
			}
			src = src[:i] + src[j:]
		case 1: // insert soup
			src = src[:i] + " " + c08Soup[rng.Intn(len(c08Soup))] + " " + src[i:]
		case 2: // duplicate a span
			j := i + rng.Intn(12)
			if j > len(src) {
				j = len(src)
			}
			src = src[:j] + src[i:j] + src[j:]
		default: // pure soup line
			var b strings.Builder
			for t := 0; t < 2+rng.Intn(8); t++ {
				b.WriteString(c08Soup[rng.Intn(len(c08Soup))] + " ")
			}
			src = src[:i] + "\n" + b.String() + "\n" + src[i:]
		}
	}
	if !strings.Contains(src, "read") {
		p.Input = nil
	}
	return c08Prog{Family: "malformed", Src: src, Input: p.Input, Events: p.Events}
}


var reErrPos = regexp.MustCompile(`^line \d+ column \d+`)

// c08ErrPositions projects a parser.Errors text onto the positions of its lines.
func c08ErrPositions(s string) string {
	var l []string
	for _, line := range strings.Split(s, "\n") {
		l = append(l, reErrPos.FindString(line))
	}
	return strings.Join(l, ";")
}

// ---------- rejected programs with several candidates per diagnostic ----------

var c08Reserved = map[string]bool{"num": true, "string": true, "bool": true, "any": true, "true": true, "false": true, "and": true, "or": true,
	"if": true, "else": true, "func": true, "return": true, "on": true, "for": true, "range": true, "while": true, "break": true, "end": true}

var c08FuncStems = []string{"draw", "plot", "show", "calc", "step", "tick", "area", "grow", "spin", "mark", "count", "paint", "shape", "reset", "add", "put", "bounce", "update"}
var c08VarStems = []string{"total", "speed", "score", "angle", "left", "size", "pos", "radius", "names", "lives"}

const c08Letters = "aeioubcdklmnprstxyz"

// c08Near: the notions of "similar name" a diagnostic may use: equal up to case,
// same length and one character different, one character inserted / deleted,
// two neighbours swapped.
func c08Near(a, b string) bool {
	if a == b {
		return false
	}
	if strings.EqualFold(a, b) {
		return true
	}
	if len(a) == len(b) {
		d, first := 0, -1
		for i := 0; i < len(a); i++ {
			if a[i] != b[i] {
				if d == 0 {
					first = i
				}
				d++
			}
		}
		if d == 1 {
			return true
		}
		return d == 2 && first+1 < len(a) && a[first] == b[first+1] && a[first+1] == b[first] // transposition
	}
	if len(a) > len(b) {
		a, b = b, a
	}
	if len(b)-len(a) != 1 {
		return false
	}
	for i := 0; i < len(b); i++ {
		if b[:i]+b[i+1:] == a {
			return true
		}
	}
	return false
}

func c08Subst(s string, i int, c byte) string { return s[:i] + string(c) + s[i+1:] }

// c08Mutations of a name: every single-character substitution / deletion /
// doubling / swap, plus the case variants.
func c08Mutations(s string) []string {
	out := []string{strings.ToUpper(s), strings.ToUpper(s[:1]) + s[1:], s[:len(s)-1] + strings.ToUpper(s[len(s)-1:])}
	for i := 0; i < len(s); i++ {
		for j := 0; j < len(c08Letters); j++ {
			if c08Letters[j] != s[i] {
				out = append(out, c08Subst(s, i, c08Letters[j]))
			}
		}
		if len(s) > 3 {
			out = append(out, s[:i]+s[i+1:])
		}
		out = append(out, s[:i]+s[i:i+1]+s[i:])
		if i+1 < len(s) && s[i] != s[i+1] {
			out = append(out, s[:i]+s[i+1:i+2]+s[i:i+1]+s[i+2:])
		}
	}
	return out
}

func c08BuiltinFuncNames() []string {
	var l []string
	for n := range evaluator.BuiltinDecls().Funcs {
		l = append(l, n)
	}
	sort.Strings(l)
	return l
}

var c08BuiltinTyposCache []string

// c08BuiltinTypos: undeclared names that are near (c08Near) at least TWO
// built-in functions (mix: min max; den: len del; tent: text test; …), computed
// from the real table so that new built-ins take part.
func c08BuiltinTypos() []string {
	if c08BuiltinTyposCache != nil {
		return c08BuiltinTyposCache
	}
	decls := evaluator.BuiltinDecls()
	names := c08BuiltinFuncNames()
	taken := map[string]bool{}
	for _, n := range names {
		taken[n] = true
	}
	for n := range decls.Globals {
		taken[n] = true
	}
	for n := range decls.EventHandlers {
		taken[n] = true
	}
	seen := map[string]bool{}
	for _, b := range names {
		for _, c := range c08Mutations(b) {
			if seen[c] || taken[c] || c08Reserved[c] || len(c) < 3 {
				continue
			}
			seen[c] = true
			k, sameLen := 0, 0
			for _, o := range names {
				if c08Near(c, o) {
					k++
					if len(o) == len(c) {
						sameLen++
					}
				}
			}
			if k >= 2 && sameLen >= 2 {
				c08BuiltinTyposCache = append(c08BuiltinTyposCache, c)
			}
		}
	}
	sort.Strings(c08BuiltinTyposCache)
	return c08BuiltinTyposCache
}

// c08NearSet: k distinct names near `unknown` (and `unknown` itself is not among
// them), none reserved or in `taken`.
func c08NearSet(rng *rand.Rand, stem string, k int, taken map[string]bool) (names []string, unknown string) {
	mode := rng.Intn(4)
	var cands []string
	switch mode {
	case 0: // all differ from the unknown name at ONE common position
		pos := rng.Intn(len(stem))
		for _, j := range rng.Perm(len(c08Letters)) {
			cands = append(cands, c08Subst(stem, pos, c08Letters[j]))
		}
		unknown, cands = cands[0], cands[1:]
	case 1: // case variants
		unknown = strings.ToUpper(stem)
		cands = []string{stem, strings.ToUpper(stem[:1]) + stem[1:], stem[:1] + strings.ToUpper(stem[1:2]) + stem[2:], stem[:len(stem)-1] + strings.ToUpper(stem[len(stem)-1:]), strings.ToUpper(stem[:2]) + stem[2:]}
		if rng.Intn(2) == 0 {
			unknown, cands[0] = stem, unknown
		}
		rng.Shuffle(len(cands), func(i, j int) { cands[i], cands[j] = cands[j], cands[i] })
	case 2: // each differs from the unknown name (the stem) at a position of its own
		unknown = stem
		for _, pos := range rng.Perm(len(stem)) {
			cands = append(cands, c08Subst(stem, pos, c08Letters[rng.Intn(len(c08Letters))]))
		}
	default: // any mixture of substitution / deletion / doubling / swap / case
		unknown = stem
		m := c08Mutations(stem)
		for _, j := range rng.Perm(len(m))[:12] {
			cands = append(cands, m[j])
		}
	}
	for _, c := range cands {
		if len(names) == k {
			break
		}
		if c == unknown || taken[c] || c08Reserved[c] || !c08Near(c, unknown) {
			continue
		}
		taken[c] = true
		names = append(names, c)
	}
	taken[unknown] = true
	return names, unknown
}

// genRejected: REJECTED programs in which every diagnostic that could be chosen
// or worded by looking through a table (declared functions incl. built-ins,
// variables of the scope, event handlers, type names) has at least 2-3
// candidates: calls of undeclared functions whose names are near >= 2 declared
// functions or built-ins — in statement position, parenthesised in expressions,
// in conditions, in map literals, inside function / handler / block bodies —
// uses of and assignments to undeclared variables near >= 3 declared ones,
// unknown handlers and types, wrong argument counts / types for near-named
// functions, redeclarations. The parse error TEXTS are compared byte for byte.
func genRejected(rng *rand.Rand) c08Prog {
	decls := evaluator.BuiltinDecls()
	taken := map[string]bool{}
	for n := range decls.Funcs {
		taken[n] = true
	}
	for n := range decls.Globals {
		taken[n] = true
	}
	for n := range decls.EventHandlers {
		taken[n] = true
	}
	var b strings.Builder
	// functions
	var funcs []string
	var unkF string
	builtinTypo := rng.Intn(3) == 0
	if typos := c08BuiltinTypos(); builtinTypo && len(typos) > 0 {
		unkF = typos[rng.Intn(len(typos))]
		taken[unkF] = true
		// 0-2 user functions near the same unknown name, next to the >= 2 built-ins
		m := c08Mutations(unkF)
		for _, j := range rng.Perm(len(m))[:rng.Intn(3)] {
			if c := m[j]; !taken[c] && !c08Reserved[c] && c08Near(c, unkF) && len(c) >= 2 {
				taken[c] = true
				funcs = append(funcs, c)
			}
		}
	} else {
		builtinTypo = false
		funcs, unkF = c08NearSet(rng, c08FuncStems[rng.Intn(len(c08FuncStems))], 2+rng.Intn(4), taken)
	}
	sig := map[string]int{}
	rng.Shuffle(len(funcs), func(i, j int) { funcs[i], funcs[j] = funcs[j], funcs[i] })
	for _, f := range funcs {
		switch k := rng.Intn(4); k {
		case 0:
			fmt.Fprintf(&b, "func %s\n    print \"%s\"\nend\n", f, f)
		case 1:
			fmt.Fprintf(&b, "func %s a:num b:num\n    print \"%s\" a b\nend\n", f, f)
		case 2:
			fmt.Fprintf(&b, "func %s:num a:num\n    return a * 2\nend\n", f)
		default:
			fmt.Fprintf(&b, "func %s:string s:string n:num\n    return s + (sprint n)\nend\n", f)
		}
		sig[f] = len(sig)
	}
	// variables
	vars, unkV := c08NearSet(rng, c08VarStems[rng.Intn(len(c08VarStems))], 3+rng.Intn(3), taken)
	unusedVars := rng.Intn(4) == 0
	for i, v := range vars {
		switch i % 3 {
		case 0:
			fmt.Fprintf(&b, "%s := %d\n", v, i+1)
		case 1:
			fmt.Fprintf(&b, "%s := [%d %d]\n", v, i, i+1)
		default:
			fmt.Fprintf(&b, "%s := {k:%d}\n", v, i)
		}
	}
	if !unusedVars {
		b.WriteString("print " + strings.Join(vars, " ") + "\n")
	}
	// handlers
	hs := [][2]string{{"down", "on down x:num y:num\n    print \"down\" x y\nend\n"}, {"up", "on up\n    print \"up\"\nend\n"}, {"move", "on move x:num y:num\n    print x y\nend\n"},
		{"key", "on key k:string\n    print k\nend\n"}, {"input", "on input id:string val:string\n    print id val\nend\n"}, {"animate", "on animate t:num\n    print t\nend\n"}}
	nh := 2 + rng.Intn(4)
	hperm := rng.Perm(len(hs))
	for _, i := range hperm[:nh] {
		b.WriteString(hs[i][1])
	}
	// the offending statements
	anyFunc := func() string {
		if len(funcs) > 0 && rng.Intn(3) > 0 {
			return funcs[rng.Intn(len(funcs))]
		}
		bn := c08BuiltinFuncNames()
		return bn[rng.Intn(len(bn))]
	}
	args := []string{"", " 1", " 1 2", " \"a\"", " 1 2 3", " [1] {}", " true", " (1 + 2) \"s\""}
	ut := []string{"nun", "strinq", "bol", "Num", "String", "ani", "number", "[]nun", "{}bol"}
	kinds := 0
	tmp := 0
	stmt := func() string {
		tmp++
		a := args[rng.Intn(len(args))]
		v := vars[rng.Intn(len(vars))]
		k := rng.Intn(24)
		if k == 23 && rng.Intn(4) > 0 { // errors in a function signature end the parse before the bodies are looked at: keep them rare
			k = rng.Intn(3)
		}
		if k < 3 || k == 8 {
			kinds |= 1 // a call in statement position
		}
		switch k {
		case 0, 1:
			return unkF + a + "\n"
		case 2:
			return unkF + "\n"
		case 3:
			return "print (" + unkF + a + ")\n"
		case 4:
			return fmt.Sprintf("r%d := (%s%s)\nprint r%d\n", tmp, unkF, a, tmp)
		case 5:
			return "if (" + unkF + a + ") > 2\n    print 1\nend\n"
		case 6:
			return fmt.Sprintf("mm%d := {a:(%s 1) b:(%s 2) c:(%s 3) d:4}\nprint mm%d\n", tmp, unkF, unkF, unkF, tmp)
		case 7:
			return "print 1 (len [(" + unkF + a + ")]) \"x\"\n"
		case 8:
			return "while (" + unkF + ")\n    " + unkF + a + "\nend\n"
		case 9:
			return "print " + unkV + "\n"
		case 10:
			return unkV + " = 3\n"
		case 11:
			return unkV + []string{"[0] = 1\n", ".k = 1\n", "[\"k\"] = 2\n"}[rng.Intn(3)]
		case 12:
			return fmt.Sprintf("r%d := %s + 1\nprint r%d\n", tmp, unkV, tmp)
		case 13:
			return "print " + unkV + "[0] " + unkV + ".k (" + unkV + ")\n"
		case 14:
			return anyFunc() + " 1 2 3 4 5 6\n"
		case 15:
			return anyFunc() + " {} [[true]]\n"
		case 16:
			return fmt.Sprintf("q%d:%s\nprint q%d\n", tmp, ut[rng.Intn(len(ut))], tmp)
		case 17:
			f := anyFunc()
			return fmt.Sprintf("func %s\n    print \"again\"\nend\n", f)
		case 18:
			return fmt.Sprintf("%s := %s\n", v, []string{"1", "\"s\"", "[1]", "{}"}[rng.Intn(4)])
		case 19:
			h := hs[hperm[rng.Intn(nh)]][0]
			m := c08Mutations(h)
			return "on " + m[rng.Intn(len(m))] + "\n    print \"typo\"\nend\n"
		case 20:
			return hs[hperm[rng.Intn(nh)]][1]
		case 21:
			return "print " + v + ".x." + unkV + " (" + anyFunc() + ")\n"
		case 22:
			return []string{"return 5\n", "break\n", "end\n", "else\n"}[rng.Intn(4)]
		default:
			return fmt.Sprintf("func w%d:%s a:%s\n    return %s\nend\n", tmp, ut[rng.Intn(len(ut))], ut[rng.Intn(len(ut))], unkV)
		}
	}
	ns := 2 + rng.Intn(5)
	for i := 0; i < ns; i++ {
		s := stmt()
		if i == ns-1 && kinds&1 == 0 && rng.Intn(4) > 0 { // the unknown call in statement position is in most programs
			s = unkF + args[rng.Intn(len(args))] + "\n" + s
		}
		isDecl := strings.HasPrefix(s, "func ") || strings.HasPrefix(s, "on ")
		w := rng.Intn(7)
		if isDecl || w > 4 {
			b.WriteString(s)
			continue
		}
		ind := "    " + strings.ReplaceAll(strings.TrimSuffix(s, "\n"), "\n", "\n    ") + "\n"
		switch w {
		case 0:
			b.WriteString("if true\n" + ind + "end\n")
		case 1:
			fmt.Fprintf(&b, "for i%d := range 2\n    print i%d\n%send\n", tmp, tmp, ind)
		case 2:
			fmt.Fprintf(&b, "func body%d n:num\n    print n\n%send\n", tmp, ind)
		case 3:
			b.WriteString("if false\n    print 0\nelse\n    while true\n" + strings.ReplaceAll(ind, "    ", "        ") + "        break\n    end\nend\n")
		default:
			fmt.Fprintf(&b, "on %s\n%send\n", hs[hperm[len(hs)-1]][0], ind)
		}
	}
	fam := "rejected-near-names:user-functions"
	if builtinTypo {
		fam = "rejected-near-names:builtins"
	}
	return c08Prog{Family: fam, Src: b.String(), N: len(funcs) + len(vars) + nh}
}

func genC08(rng *rand.Rand) c08Prog {
	switch k := rng.Intn(100); {
	case k < 16:
		return genUnused(rng)
	case k < 32:
		return genMapLit(rng)
	case k < 44:
		return genFont(rng)
	case k < 54:
		return genCombine(rng)
	case k < 62:
		return genEquals(rng)
	case k < 68:
		return genMapsMisc(rng)
	case k < 78:
		return genDeepCopy(rng)
	case k < 82:
		return genEvents(rng)
	case k < 87:
		return genValid(rng)
	case k < 93:
		return genGlobalState(rng)
	}
	bases := []func(*rand.Rand) c08Prog{genUnused, genMapLit, genFont, genCombine, genMapsMisc, genDeepCopy, genEvents, genValid, genGlobalState}
	return genMalformed(rng, bases[rng.Intn(len(bases))])
}

// corpus: the Coq _before_fix_refuted witnesses as programs (8 entries, so that
// the runtime's random start makes a miss practically impossible), plus the
// inputs of DESIGN §7 rows 6-8. All five sites are fixed in /repo: the model in
// force says "order independent" on every witness, so any variation here is a
// VIOLATION (property) and a model-says-independent correspondence failure.
// Witness holds the Coq _refuted witness of the same shape (2-3 entries): the
// model in force is asked whether it is order dependent on it.
var c08Corpus = []c08Prog{
	{Family: "corpus-validateScope", N: 8, Dep: true, Src: "a := 1\nb := 2\nc := 3\nd := 4\ne := 5\nf := 6\ng := 7\nh := 8\n",
		Witness: `(validateScope ("a" 1 1 false) ("b" 2 1 false))`},
	{Family: "corpus-evalMapLiteral", N: 8, Src: "func f:num n:num\n    print \"call\" n\n    return n\nend\nm := {a:(f 1) b:(f 2) c:(f 3) d:(f 4) e:(f 5) f:(f 6) g:(f 7) h:(f 8)}\nprint m\n",
		Witness: `(evalMapLiteral ("a" print 1) ("b" print 2))`},
	{Family: "corpus-parseFontProps", N: 7, Dep: true, Src: "font {size:\"a\" weight:\"b\" style:1 family:2 baseline:3 align:4 letterspacing:\"c\"}\n",
		Witness: `(fontProps ("size" s "a") ("style" n 1))`},
	{Family: "corpus-combineTypes", N: 8, Dep: true, Fixed: true, Src: "x := [1]\nm := {a:[2] b:x c:[\"a\"] d:[3] e:x f:[4] g:x h:[5]}\nprint m (typeof m)\n",
		Witness: `(combine-all (arr 0 num) (arr 1 num) (arr 0 str))`},
	{Family: "corpus-mapEquals", N: 8, Src: "m1 := {a:0 b:1 c:0 d:1 e:0 f:1 g:0 h:1}\nm2 := {h:3 g:2 f:3 e:2 d:3 c:2 b:3 a:2}\nprint (m1 == m2) (m1 != m2)\ntest m1 m2\n",
		Witness: `(equals ("a" () 2) ("b" 1 3))`},
	{Family: "corpus-wrapAny-panic-location", N: 8, Src: "x := [1]\nm := {a:[2] b:x c:x d:x e:x f:x g:x h:[\"a\"]}\nprint m (typeof m)\n"},
	{Family: "corpus-deepCopy-map-order", N: 8, Src: "m := {h:1 g:2 f:3 e:4 d:5 c:6 b:7 a:8}\nrow := [m] * 3\nprint row[1]\nfor k := range row[2]\n    print k\nend\naa := [m 1] * 2\nprint aa[2] ([[m]] * 2)\n"},
	{Family: "corpus-global-state", Pristine: true, Src: "print err errmsg pi (len errmsg)\nn := str2num \"12x\"\nprint n err errmsg\npi = 3\n"},
	// every fmt verb applied to arrays / maps / any-held composites by printf and sprintf: nothing that depends on where
	// the allocator placed a value (an address, a pointer-typed field printed by reflection) may reach the output
	{Family: "corpus-printf-verbs-on-composites", Src: "a := [3 1 2]\nm := {ann:7 bob:9}\nx:any\nx = a\ny:any\ny = m\n" +
		"printf \"%d %p %b %o\\n\" a m x y\nprintf \"%x %X %#v %T\\n\" a m x y\nprintf \"%e %c %U %t %g\\n\" a m x y a\n" +
		"s := sprintf \"%d|%v|%s|%q|%5d|%p|%+v\" a m a m m a y\nprint s\nprintf \"%d %d\\n\" [[1] [2]] [{k:[1]}]\nprintf \"%p %p\\n\" \"s\" 1\n"},
	// the seeded PRNG is the only source of randomness: every form of argument (integer, fractional, computed) many times
	{Family: "corpus-rand-all-argument-forms", Src: "s := \"\"\nfor range 40\n    s = s + (sprint (rand 6)) + (sprint (rand 2.5)) + (sprint (rand 7/2)) + (sprint (rand 1)) + (sprint (rand 1.000001))\nend\nprint s\nprint (rand1) (rand1) (rand 2147483647) (rand 2147483646.5)\n"},
	// rejected programs whose errors arise inside ONE map literal: text, position and order of the parse errors are fixed
	{Family: "corpus-map-literal-errors", Src: "func p\n    print 1\nend\nm := {a:(p) b:(p) c:(cls) d:(p) e:(cls) f:(p) g:(p) h:(cls)}\nprint m\n"},
	{Family: "corpus-map-literal-errors", Src: "m := {a:(cls) b:1 c:(cls) d:2 e:(cls) f:3}\nn := {a:zz b:yy c:xx d:ww e:vv f:uu}\nprint m n\n"},
	{Family: "corpus-map-literal-errors", Src: "m := {a:1 a:2 b:3 b:4 c:5 c:6 d:7 d:8}\nq := {if:1 if:2 end:3 end:4 for:5 for:6}\nprint m q\n"},
	{Family: "corpus-design-7-6", N: 2, Dep: true, Src: "a := 1\nb := 2\n"},
	{Family: "corpus-design-7-8", N: 3, Dep: true, Src: "font {size:\"a\" weight:\"b\" style:1}\n"},
}

// ---------- the run ----------

// probability that R independent iterations of a Go 1.23 map with n ≤ 8
// entries (one bucket, start offset uniform in 0..7, empty slots skipped) all
// deliver the same order
func c08MissProb(n, reps int) float64 {
	if n < 2 {
		return 1
	}
	if n > 8 {
		n = 8
	}
	return math.Pow(float64(9-n)/8, float64(reps)) + float64(n-1)*math.Pow(1.0/8, float64(reps))
}

func c08CheckBatch(cfg Config, r *Result, model *Model, progs []c08Prog, inproc int, stats map[string]int) {
	children, err := c08RunChildren(progs, c08Procs)
	if err != nil {
		r.Violate(Violation{Kind: "correspondence", Key: "child-process", Detail: "fresh-process repetitions could not be run: " + err.Error()})
		children = nil
	}
	for i, p := range progs {
		variants := []c08Obs{}
		where := []string{}
		seen := map[string]bool{}
		namesOrders := map[string]bool{}
		modelObs := map[string]bool{}
		add := func(o c08Obs, w string) {
			namesOrders[o.NamesOrder] = true
			if p.Site != "" {
				modelObs[c08ModelObs(p, o)] = true
			}
			if !seen[o.key()] {
				seen[o.key()] = true
				variants = append(variants, o)
				where = append(where, w)
			}
		}
		pristine := ""
		if p.Pristine || len(p.Src)%16 == 0 { // the new-process runs above share one process per batch; this one is alone
			if one, err := c08RunChildren([]c08Prog{p}, 1); err == nil {
				pristine = one[0][0].key()
				add(one[0][0], "pristine process (this program only)")
				stats["pristine-process-runs"]++
			} else {
				r.Violate(Violation{Kind: "correspondence", Key: "child-process", Detail: "pristine-process run failed: " + err.Error()})
			}
		}
		seq := []string{}
		for k := 0; k < inproc; k++ {
			o := c08Observe(p)
			seq = append(seq, o.key())
			add(o, fmt.Sprintf("in-process #%d", k))
		}
		for c := range children {
			add(children[c][i], fmt.Sprintf("fresh process #%d", c))
		}
		r.Count(p.Src, p.N >= 4 || p.Family == "valid-mixed" || p.Family == "malformed" || strings.HasPrefix(p.Family, "rejected-"))
		r.Dist("family:" + p.Family)
		r.Dist("class:" + variants[0].Class)
		if len(namesOrders) > 1 {
			stats["name-list-order-varied"]++
		}
		if variants[0].Class == "parse-error" && !strings.HasPrefix(p.Family, "unused-vars") && p.Family != "malformed" &&
			p.Family != "corpus-validateScope" && !strings.HasPrefix(p.Family, "rejected-") && p.Family != "corpus-design-7-6" && p.Family != "corpus-map-literal-errors" {
			r.Violate(Violation{Kind: "correspondence", Key: "generator-invalid-program:" + p.Family,
				Detail: "a program of a family that is meant to be accepted by the parser was rejected (harness generator out of date?): " + variants[0].Parse, Input: p})
		}
		if p.Dep {
			stats["formerly-order-dependent"]++
			if len(variants) > 1 {
				stats["formerly-order-dependent-still-varies"]++
			}
		}
		if len(r.Samples) < 4 && (p.Family == "map-literal-effects" || p.Family == "valid-mixed" || p.Family == "unused-vars" || p.Family == "font-bad-props") {
			dup := false
			for _, s := range r.Samples {
				if s.(map[string]any)["family"] == p.Family {
					dup = true
				}
			}
			if !dup {
				r.Sample(map[string]any{"family": p.Family, "program": p.Src, "distinct_outcomes_over_repetitions": len(variants), "first_outcome": variants[0]})
			}
		}
		if len(variants) > 1 {
			key, detail := c08Classify(p, variants, seq, pristine)
			if len(variants) > 4 {
				variants, where = variants[:4], where[:4]
			}
			r.Violate(Violation{Kind: "property", Key: key,
				Detail: fmt.Sprintf("%s — %d distinct outcomes over %d in-process and %d fresh-process repetitions of the same program", detail, len(seen), inproc, len(children)),
				Input:  p, Impl: map[string]any{"outcomes": variants, "first_seen_in": where}})
		}
		// correspondence: observed ⊆ model's outcomes over all permutations
		if p.Site != "" && model != nil && p.N > 7 {
			stats["model-skipped-more-than-7-entries"]++ // 8! orders and more: oracle only
		} else if p.Site != "" && model != nil {
			ans, err := model.Ask(p.Case)
			if err != nil {
				r.Violate(Violation{Kind: "correspondence", Key: "model-crash", Detail: err.Error(), Input: p})
				continue
			}
			sx, err := ParseSX(ans)
			if err != nil || sx.Kind != "lst" {
				r.Violate(Violation{Kind: "correspondence", Key: "model-output", Detail: ans, Input: p})
				continue
			}
			set := c08ModelSet(p, sx)
			r.Validated++
			r.Dist("model-site:" + p.Site)
			if len(set) > 1 {
				stats["model-says-order-dependent"]++
				if len(modelObs) > 1 {
					stats["model-says-order-dependent-and-observed-varies"]++
				}
			}
			for o := range modelObs {
				if set[o] {
					continue
				}
				if p.Site == "combine-all" && o == "panic" && p.Fixed {
					// wrapAny's internal-error panic on a Fixed value (C03/C04's defect, DESIGN §7 row 2):
					// since e6ebb6a it happens deterministically (source order); the panic itself is not C08's
					stats["combine-wrapAny-panic-with-fixed-type"]++
					continue
				}
				ks := make([]string, 0, len(set))
				for k := range set {
					ks = append(ks, k)
				}
				sort.Strings(ks)
				if len(ks) > 12 {
					ks = ks[:12]
				}
				r.Violate(Violation{Kind: "correspondence", Key: "model-" + p.Site + "-outcome-not-predicted",
					Detail: "the implementation produced an outcome that the model does not produce for any iteration order",
					Input:  p, Impl: o, Model: ks})
			}
		}
	}
}

func runC08(cfg Config, r *Result) {
	r.Rule = "programs from 12 families biased to expose Go map order (4-8 unused variables per scope; map literals with 4-8 values of which most print; font with 3-8 properties of which several are bad; map literals mixing literal/variable/empty composite types; == on maps incl. an ill-typed value; maps printed/compared/tested/copied/iterated; programs that print/compare/index err, errmsg, pi before any conversion and end with a failing conversion / a success after a failure / an assignment to the globals (with handlers and test in between), each also run alone in a pristine process; arrays (also nested, also of any) holding maps with 4-8 keys deep-copied by array repetition and then printed/ranged/compared/asserted/mutated; 3-6 event handlers with 8 delivered events; mixed valid programs with seeded rand, read, drawing → SVG; token-level mutations of all of these; REJECTED programs with 2-6 near-named declared functions / built-ins, 3-5 near-named variables and 2-5 handlers plus 2-6 offending statements — calls of an undeclared function near >= 2 of them in statement position, parenthesised in expressions, conditions and map literals, inside if/for/while/func/handler bodies, undeclared variables read / assigned / indexed, mistyped handlers and types, wrong argument counts and types, redeclarations); each program is parsed/formatted/run/rendered 8x in-process and 3x in fresh processes and all observables (parse error text and order, Format(), class, error text, platform trace, SVG+stdout of pkg/cli, name sets) must be identical; non-trivial = order-relevant map with >= 4 entries, or a mixed/malformed program; distinct = distinct program text."
	if cfg.Replay != "" {
		c08Replay(cfg, r)
		return
	}
	model, err := StartModel("perm")
	if err != nil {
		r.Violate(Violation{Kind: "correspondence", Key: "model-start", Detail: err.Error()})
		return
	}
	defer model.Close()
	stats := map[string]int{}

	// 1. the refuted witnesses and known inputs, with more repetitions
	c08CheckBatch(cfg, r, model, c08Corpus, 24, stats)
	for _, p := range c08Corpus {
		if p.Witness == "" {
			continue
		}
		varied := false
		for _, v := range r.Violations {
			if q, ok := v.Input.(c08Prog); ok && q.Src == p.Src {
				varied = true
			}
		}
		modelDep := false
		if ans, err := model.Ask(p.Witness); err == nil {
			if sx, err := ParseSX(ans); err == nil {
				set := map[string]bool{}
				for _, x := range sx.L {
					set[x.String()] = true
				}
				modelDep = len(set) > 1
			}
		}
		r.Validated++
		switch {
		case modelDep && !varied:
			r.Violate(Violation{Kind: "correspondence", Key: "model-stale:" + p.Family,
				Detail: "the model in force (coq/Perm.v, *_cur) is order dependent on the _refuted witness of this site, but 24+3 repetitions of the 8-entry program of the same shape never varied on the implementation: if the code was fixed, switch the *_cur definition to the _fixed variant and the registry entry to OrderIndependent",
				Input:  p})
		case !modelDep && varied:
			r.Violate(Violation{Kind: "correspondence", Key: "model-says-independent:" + p.Family,
				Detail: "the model in force is order independent on this witness but the implementation varies", Input: p})
		}
		r.Dist(fmt.Sprintf("witness:%s:model-dependent=%v:impl-varied=%v", p.Family, modelDep, varied))
	}

	// 2. generated programs
	n := cfg.N(800, 12000)
	batch := 300
	for done := 0; done < n; done += batch {
		m := batch
		if n-done < m {
			m = n - done
		}
		progs := make([]c08Prog, m)
		for i := range progs {
			progs[i] = genC08(cfg.Rng)
		}
		c08CheckBatch(cfg, r, model, progs, c08InProc, stats)
	}

	// 2b. rejected programs with >= 2-3 candidates per diagnostic (error TEXTS compared)
	if nr := cfg.N(90, 2400); nr > 0 {
		for done := 0; done < nr; done += batch {
			m := batch
			if nr-done < m {
				m = nr - done
			}
			progs := make([]c08Prog, m)
			for i := range progs {
				progs[i] = genRejected(cfg.Rng)
			}
			c08CheckBatch(cfg, r, model, progs, c08InProc, stats)
		}
	}

	// 3. (the exact combineTypes comparison was dropped with /repo 0e214ac: see coq/Perm.v)

	// 4. the hypothesis of the copy-loop theorems on the real tables: map key == Name field
	for k, g := range evaluator.BuiltinDecls().Globals {
		if g.Name != k {
			r.Violate(Violation{Kind: "correspondence", Key: "builtin-global-name-differs-from-key", Detail: k + " vs " + g.Name})
		}
	}
	for k, f := range evaluator.BuiltinDecls().Funcs {
		if f.Name != k {
			r.Note("builtin func key %q has Name %q (not relied upon)", k, f.Name)
		}
	}

	for _, k := range sortedKeys(stats) {
		r.Distribution["stat:"+k] = stats[k]
	}
	reps := c08InProc + c08Procs
	r.Note("miss probability of the repetition oracle for one order-dependent program whose relevant Go map has n entries (Go 1.23 runtime, n <= 8: iteration = rotation of the bucket from a uniformly random slot, empty slots fall through to the first entry): P(all %d repetitions deliver the same order) = ((9-n)/8)^%d + (n-1)/8^%d: n=4 %.2g, n=5 %.2g, n=6 %.2g, n=7 %.2g, n=8 %.2g; generators use n=8 in 50%% and n>=6 in 80%% of the programs. %d programs of the shapes that varied before the fixes (7307e12 af9ee3d 62da4a1 e6ebb6a abeb6de) were run; %d of them still vary (each one is a VIOLATION).",
		reps, reps, reps, c08MissProb(4, reps), c08MissProb(5, reps), c08MissProb(6, reps), c08MissProb(7, reps), c08MissProb(8, reps),
		stats["formerly-order-dependent"], stats["formerly-order-dependent-still-varies"])
	r.Note("the runtime only produces rotations of the bucket order, the theorems quantify over all permutations (a superset); correspondence checks observed ⊆ model outcomes: %d programs compared, in %d the model predicts order dependence and in %d of those the implementation was seen to vary.",
		r.Validated, stats["model-says-order-dependent"], stats["model-says-order-dependent-and-observed-varies"])
	r.Note("Program.CalledBuiltinFuncs / Evaluator.EventHandlerNames are compared as sets (their slice order follows map iteration: varied in %d programs; the only consumer, pkg/wasm, uses them as sets) — registered as OrderLeaksIntoNameListOnly, not reported as a violation.", stats["name-list-order-varied"])
}

func c08Replay(cfg Config, r *Result) {
	b, err := os.ReadFile(cfg.Replay)
	if err != nil {
		r.Violate(Violation{Kind: "correspondence", Key: "replay-read", Detail: err.Error()})
		return
	}
	var v struct {
		Input json.RawMessage `json:"input"`
	}
	var p c08Prog
	if err := json.Unmarshal(b, &v); err != nil || json.Unmarshal(v.Input, &p) != nil || p.Src == "" {
		r.Violate(Violation{Kind: "correspondence", Key: "replay-format", Detail: "replay has no input.program"})
		return
	}
	p.Site = "" // oracle only
	stats := map[string]int{}
	c08CheckBatch(cfg, r, nil, []c08Prog{p}, 32, stats)
}

func init() {
	register("C08", runC08)
	register("c08-child", runC08Child)
}
