package main

// Translator piece for C08: enumerate, with go/parser + go/types, every
// statement of the production (non-test, default build tags) source of the
// anchored packages that can make an observable depend on something other
// than (source, input, events, seed):
//
//   - `for … range x` where x has map type (Go randomises the order),
//   - calls of time.Now/Since/Until, top-level math/rand functions (the global
//     source), os.Getpid, fmt verbs %p, `go` statements and `select`
//     (scheduling), maphash / crypto/rand / unsafe imports.
//
// The result is written to coq/Gen/MapSites.v as two lists of site ids that
// are independent of line numbers: "<pkg>.<func>#<ordinal in that func>".
// coq/Perm.v registers one classification (+ model + theorem) per id and
// Props/C08.v proves by computation that the regenerated lists are covered, so
// a new map-range site in /repo breaks a proof obligation.

import (
	"fmt"
	"go/ast"
	"go/build"
	"go/importer"
	"go/parser"
	"go/token"
	"go/types"
	"os"
	"path/filepath"
	"reflect"
	"runtime"
	"sort"
	"strconv"
	"strings"

	"evylang.dev/evy/pkg/evaluator"
	evyparser "evylang.dev/evy/pkg/parser"
)

// c08repoRoot finds the directory of the evy module the harness was built
// against (follows the `replace` directive of harness/go.mod).
func c08repoRoot() string {
	if p := os.Getenv("VERIF_REPO"); p != "" {
		return p
	}
	f := runtime.FuncForPC(reflect.ValueOf(evyparser.Parse).Pointer())
	if f != nil {
		file, _ := f.FileLine(f.Entry())
		// …/pkg/parser/parser.go
		d := filepath.Dir(filepath.Dir(filepath.Dir(file)))
		if _, err := os.Stat(filepath.Join(d, "go.mod")); err == nil {
			return d
		}
	}
	return "/repo"
}

type mapSite struct {
	ID      string // pkg.func#n
	Pkg     string
	File    string
	Func    string
	Line    int
	Expr    string // text of the ranged operand
	Typ     string
	Kind    string // "map-range" | "time" | "global-rand" | …
	KeyOnly bool
}

// c08Packages are the packages reachable from `evy run` / `evy fmt` whose
// behaviour is observable (bytecode, wasm, md, learn are other properties').
var c08Packages = []string{"pkg/lexer", "pkg/parser", "pkg/evaluator", "pkg/cli/svg", "pkg/cli", "."}

type repoImporter struct {
	root      string
	fset      *token.FileSet
	std       types.Importer
	cache     map[string]*types.Package
	infos     map[string]*types.Info
	files     map[string][]*ast.File
	reqs      map[string]string
	lastInfo  *types.Info
	lastFiles []*ast.File
}

const evyModule = "evylang.dev/evy"

func (ri *repoImporter) Import(path string) (*types.Package, error) {
	if path == evyModule || strings.HasPrefix(path, evyModule+"/") {
		rel := strings.TrimPrefix(strings.TrimPrefix(path, evyModule), "/")
		if rel == "" {
			rel = "."
		}
		return ri.load(rel)
	}
	if p, ok := ri.cache[path]; ok {
		return p, nil
	}
	if !strings.Contains(strings.Split(path, "/")[0], ".") { // standard library
		p, err := ri.std.Import(path)
		if err == nil {
			ri.cache[path] = p
			return p, nil
		}
	}
	// third-party (kong, txtar: only used by main.go's CLI plumbing): type-check
	// from the module cache at the version required by the repo's go.mod
	// (errors tolerated). If that is not possible: an empty package — operands
	// whose type is then unknown are reported as sites of kind "untyped-range"
	// and must be classified like any other (so the check fails closed).
	if dir := ri.moduleDir(path); dir != "" {
		ri.cache[path] = types.NewPackage(path, filepath.Base(path)) // cycle guard
		if p, err := ri.loadDir(dir, path, false); err == nil && p != nil {
			ri.cache[path] = p
			return p, nil
		}
	}
	p := types.NewPackage(path, filepath.Base(path))
	p.MarkComplete()
	ri.cache[path] = p
	return p, nil
}

// moduleDir maps an import path to its directory in the module cache using
// the require lines of the repo's go.mod.
func (ri *repoImporter) moduleDir(path string) string {
	if ri.reqs == nil {
		ri.reqs = map[string]string{}
		b, _ := os.ReadFile(filepath.Join(ri.root, "go.mod"))
		for _, line := range strings.Split(string(b), "\n") {
			f := strings.Fields(strings.TrimPrefix(strings.TrimSpace(line), "require "))
			if len(f) >= 2 && strings.Contains(f[0], ".") && strings.HasPrefix(f[1], "v") {
				ri.reqs[f[0]] = f[1]
			}
		}
	}
	best := ""
	for m := range ri.reqs {
		if (path == m || strings.HasPrefix(path, m+"/")) && len(m) > len(best) {
			best = m
		}
	}
	if best == "" {
		return ""
	}
	esc := func(s string) string {
		var b strings.Builder
		for _, r := range s {
			if r >= 'A' && r <= 'Z' {
				b.WriteByte('!')
				r += 'a' - 'A'
			}
			b.WriteRune(r)
		}
		return b.String()
	}
	caches := []string{os.Getenv("GOMODCACHE")}
	if gp := os.Getenv("GOPATH"); gp != "" {
		caches = append(caches, filepath.Join(gp, "pkg", "mod"))
	}
	if h, err := os.UserHomeDir(); err == nil {
		caches = append(caches, filepath.Join(h, "go", "pkg", "mod"))
	}
	for _, c := range caches {
		if c == "" {
			continue
		}
		d := filepath.Join(c, esc(best)+"@"+ri.reqs[best], strings.TrimPrefix(strings.TrimPrefix(path, best), "/"))
		if st, err := os.Stat(d); err == nil && st.IsDir() {
			return d
		}
	}
	return ""
}

func (ri *repoImporter) load(rel string) (*types.Package, error) {
	if p, ok := ri.cache["evy:"+rel]; ok {
		return p, nil
	}
	path := evyModule
	if rel != "." {
		path += "/" + rel
	}
	pkg, err := ri.loadDir(filepath.Join(ri.root, rel), path, true)
	if err != nil {
		return nil, err
	}
	ri.cache["evy:"+rel] = pkg
	ri.infos[rel] = ri.lastInfo
	ri.files[rel] = ri.lastFiles
	return pkg, nil
}

func (ri *repoImporter) loadDir(dir, path string, keep bool) (*types.Package, error) {
	ents, err := os.ReadDir(dir)
	if err != nil {
		return nil, err
	}
	ctx := build.Default
	ctx.BuildTags = nil // production build: no `verif`, no `full`
	ctx.CgoEnabled = false
	var files []*ast.File
	for _, e := range ents {
		n := e.Name()
		if e.IsDir() || !strings.HasSuffix(n, ".go") || strings.HasSuffix(n, "_test.go") {
			continue
		}
		if ok, err := ctx.MatchFile(dir, n); err != nil || !ok {
			continue
		}
		f, err := parser.ParseFile(ri.fset, filepath.Join(dir, n), nil, parser.ParseComments)
		if err != nil {
			return nil, err
		}
		files = append(files, f)
	}
	if len(files) == 0 {
		return nil, fmt.Errorf("no Go files in %s", dir)
	}
	info := &types.Info{Types: map[ast.Expr]types.TypeAndValue{}, Uses: map[*ast.Ident]types.Object{}, Selections: map[*ast.SelectorExpr]*types.Selection{}}
	conf := types.Config{Importer: ri, Error: func(error) {}, FakeImportC: true, IgnoreFuncBodies: !keep}
	pkg, _ := conf.Check(path, ri.fset, files, info)
	if keep {
		ri.lastInfo, ri.lastFiles = info, files
	}
	return pkg, nil
}

func exprText(fset *token.FileSet, e ast.Expr) string {
	switch x := e.(type) {
	case *ast.Ident:
		return x.Name
	case *ast.SelectorExpr:
		return exprText(fset, x.X) + "." + x.Sel.Name
	case *ast.CallExpr:
		return exprText(fset, x.Fun) + "(…)"
	case *ast.IndexExpr:
		return exprText(fset, x.X) + "[…]"
	case *ast.StarExpr:
		return "*" + exprText(fset, x.X)
	case *ast.ParenExpr:
		return "(" + exprText(fset, x.X) + ")"
	case *ast.CompositeLit:
		return "literal"
	}
	return fmt.Sprintf("%T", e)
}

func funcName(d *ast.FuncDecl) string {
	if d.Recv != nil && len(d.Recv.List) > 0 {
		t := d.Recv.List[0].Type
		if s, ok := t.(*ast.StarExpr); ok {
			t = s.X
		}
		if ix, ok := t.(*ast.IndexExpr); ok {
			t = ix.X
		}
		if id, ok := t.(*ast.Ident); ok {
			return id.Name + "." + d.Name.Name
		}
	}
	return d.Name.Name
}

var randMethodsOnGlobal = map[string]bool{"Int": true, "Intn": true, "Int31": true, "Int31n": true, "Int63": true, "Int63n": true,
	"Float32": true, "Float64": true, "Perm": true, "Shuffle": true, "Uint32": true, "Uint64": true, "NormFloat64": true, "ExpFloat64": true, "Seed": true, "Read": true}

// enumerateSites lists all sites of the anchored packages.
func enumerateSites(root string) ([]mapSite, *repoImporter, error) {
	fset := token.NewFileSet()
	ri := &repoImporter{root: root, fset: fset, std: importer.ForCompiler(fset, "source", nil),
		cache: map[string]*types.Package{}, infos: map[string]*types.Info{}, files: map[string][]*ast.File{}}
	var sites []mapSite
	for _, rel := range c08Packages {
		if _, err := ri.load(rel); err != nil {
			return nil, nil, fmt.Errorf("%s: %w", rel, err)
		}
		info := ri.infos[rel]
		files := ri.files[rel]
		sort.Slice(files, func(i, j int) bool { return fset.File(files[i].Pos()).Name() < fset.File(files[j].Pos()).Name() })
		pkgName := rel
		if rel == "." {
			pkgName = "main"
		}
		for _, f := range files {
			fname := filepath.Base(fset.File(f.Pos()).Name())
			for _, imp := range f.Imports {
				p, _ := strconv.Unquote(imp.Path.Value)
				switch p {
				case "unsafe", "hash/maphash", "crypto/rand":
					sites = append(sites, mapSite{ID: pkgName + ".import#" + p, Pkg: pkgName, File: fname, Func: "import", Line: fset.Position(imp.Pos()).Line, Expr: p, Kind: "import"})
				}
			}
			visit := func(fn string, body ast.Node) {
				ord := map[string]int{}
				add := func(kind string, pos token.Pos, expr, typ string, keyOnly bool) {
					ord[kind]++
					tag := ""
					if kind != "map-range" {
						tag = kind + ":"
					}
					sites = append(sites, mapSite{ID: fmt.Sprintf("%s.%s#%s%d", pkgName, fn, tag, ord[kind]), Pkg: pkgName, File: fname, Func: fn,
						Line: fset.Position(pos).Line, Expr: expr, Typ: typ, Kind: kind, KeyOnly: keyOnly})
				}
				ast.Inspect(body, func(n ast.Node) bool {
					switch x := n.(type) {
					case *ast.RangeStmt:
						tv, ok := info.Types[x.X]
						if !ok || tv.Type == nil || tv.Type == types.Typ[types.Invalid] {
							add("untyped-range", x.Pos(), exprText(fset, x.X), "?", x.Value == nil)
							break
						}
						u := tv.Type.Underlying()
						if p, ok := u.(*types.Pointer); ok {
							u = p.Elem().Underlying()
						}
						if tp, ok := u.(*types.TypeParam); ok {
							add("untyped-range", x.Pos(), exprText(fset, x.X), tp.String(), x.Value == nil)
							break
						}
						if _, ok := u.(*types.Map); ok {
							add("map-range", x.Pos(), exprText(fset, x.X), types.TypeString(tv.Type, func(p *types.Package) string { return p.Name() }), x.Value == nil)
						}
					case *ast.GoStmt:
						add("go", x.Pos(), "go", "", false)
					case *ast.SelectStmt:
						add("select", x.Pos(), "select", "", false)
					case *ast.BasicLit:
						if x.Kind == token.STRING && strings.Contains(x.Value, "%p") {
							add("fmt-pointer", x.Pos(), x.Value, "", false)
						}
					case *ast.CallExpr:
						sel, ok := x.Fun.(*ast.SelectorExpr)
						if !ok {
							break
						}
						id, ok := sel.X.(*ast.Ident)
						if !ok {
							break
						}
						pn, ok := info.Uses[id].(*types.PkgName)
						if !ok {
							break
						}
						switch ip := pn.Imported().Path(); {
						case ip == "time" && (sel.Sel.Name == "Now" || sel.Sel.Name == "Since" || sel.Sel.Name == "Until"):
							add("time", x.Pos(), "time."+sel.Sel.Name, "", false)
						case (ip == "math/rand" || ip == "math/rand/v2") && randMethodsOnGlobal[sel.Sel.Name]:
							add("global-rand", x.Pos(), "rand."+sel.Sel.Name, "", false)
						case ip == "os" && (sel.Sel.Name == "Getpid" || sel.Sel.Name == "Getppid"):
							add("pid", x.Pos(), "os."+sel.Sel.Name, "", false)
						}
					}
					return true
				})
			}
			for _, d := range f.Decls {
				switch x := d.(type) {
				case *ast.FuncDecl:
					if x.Body != nil {
						visit(funcName(x), x.Body)
					}
				case *ast.GenDecl:
					if x.Tok == token.VAR {
						visit("var", x)
					}
				}
			}
		}
	}
	// "var" pseudo-function ordinals restart per GenDecl; make ids unique
	seen := map[string]int{}
	for i := range sites {
		seen[sites[i].ID]++
		if n := seen[sites[i].ID]; n > 1 {
			sites[i].ID = fmt.Sprintf("%s'%d", sites[i].ID, n)
		}
	}
	return sites, ri, nil
}

// ---------- package-level state ----------
//
// A package-level variable lives as long as the process: if it is (or points
// to) something that a run can change, one run can influence the next one in
// the same process. Listed: every package-level variable of the anchored
// packages whose type contains a pointer, map, slice, channel, function or
// interface ("ref"), and every other package-level variable that is assigned
// after its declaration ("value,written"). Flags: "written" = some statement
// in the anchored packages assigns to the variable or stores through an
// expression rooted at it (v = …, v.f = …, v[i] = …, *v = …, v++, delete(v,…),
// clear(v)); "addr" = its address is taken. Aliases are not followed (a store
// through a local copy of the pointer is not seen): the table says which
// variables exist and how they are used directly; coq/Props/C08.v must give
// each one a reason why it carries no state from run to run.

type stateVar struct {
	ID    string
	Flags string
	Typ   string
}

func hasRef(t types.Type, seen map[types.Type]bool) bool {
	if seen[t] {
		return false
	}
	seen[t] = true
	switch u := t.Underlying().(type) {
	case *types.Basic:
		return u.Kind() == types.UnsafePointer
	case *types.Struct:
		for i := 0; i < u.NumFields(); i++ {
			if hasRef(u.Field(i).Type(), seen) {
				return true
			}
		}
		return false
	case *types.Array:
		return hasRef(u.Elem(), seen)
	}
	return true // pointer, map, slice, chan, func, interface, type parameter
}

func rootObj(info *types.Info, e ast.Expr) types.Object {
	for {
		switch x := e.(type) {
		case *ast.ParenExpr:
			e = x.X
		case *ast.StarExpr:
			e = x.X
		case *ast.IndexExpr:
			e = x.X
		case *ast.SliceExpr:
			e = x.X
		case *ast.SelectorExpr:
			if id, ok := x.X.(*ast.Ident); ok {
				if _, isPkg := info.Uses[id].(*types.PkgName); isPkg {
					return info.Uses[x.Sel]
				}
			}
			e = x.X
		case *ast.Ident:
			if o := info.Uses[x]; o != nil {
				return o
			}
			return info.Defs[x]
		default:
			return nil
		}
	}
}

func enumerateState(ri *repoImporter) []stateVar {
	written := map[types.Object]bool{}
	addr := map[types.Object]bool{}
	isPkgVar := func(o types.Object) bool {
		v, ok := o.(*types.Var)
		return ok && v.Pkg() != nil && v.Parent() == v.Pkg().Scope()
	}
	mark := func(m map[types.Object]bool, info *types.Info, e ast.Expr) {
		if o := rootObj(info, e); o != nil && isPkgVar(o) {
			m[o] = true
		}
	}
	for _, rel := range c08Packages {
		info := ri.infos[rel]
		for _, f := range ri.files[rel] {
			ast.Inspect(f, func(n ast.Node) bool {
				switch x := n.(type) {
				case *ast.AssignStmt:
					if x.Tok != token.DEFINE {
						for _, l := range x.Lhs {
							mark(written, info, l)
						}
					}
				case *ast.IncDecStmt:
					mark(written, info, x.X)
				case *ast.RangeStmt:
					if x.Tok == token.ASSIGN {
						if x.Key != nil {
							mark(written, info, x.Key)
						}
						if x.Value != nil {
							mark(written, info, x.Value)
						}
					}
				case *ast.UnaryExpr:
					if x.Op == token.AND {
						mark(addr, info, x.X)
					}
				case *ast.CallExpr:
					if id, ok := x.Fun.(*ast.Ident); ok && (id.Name == "delete" || id.Name == "clear") && len(x.Args) > 0 {
						if _, isBuiltin := info.Uses[id].(*types.Builtin); isBuiltin {
							mark(written, info, x.Args[0])
						}
					}
				}
				return true
			})
		}
	}
	var out []stateVar
	for _, rel := range c08Packages {
		pkg := ri.cache["evy:"+rel]
		if pkg == nil {
			continue
		}
		pkgName := rel
		if rel == "." {
			pkgName = "main"
		}
		for _, name := range pkg.Scope().Names() { // sorted
			v, ok := pkg.Scope().Lookup(name).(*types.Var)
			if !ok {
				continue
			}
			ref := hasRef(v.Type(), map[types.Type]bool{})
			if !ref && !written[v] {
				continue
			}
			flags := "value"
			if ref {
				flags = "ref"
			}
			if written[v] {
				flags += ",written"
			}
			if addr[v] {
				flags += ",addr"
			}
			out = append(out, stateVar{ID: pkgName + "." + name, Flags: flags, Typ: types.TypeString(v.Type(), func(p *types.Package) string { return p.Name() })})
		}
	}
	return out
}

func c08coqStr(s string) string { return `"` + strings.ReplaceAll(s, `"`, `""`) + `"` }

func genMapSites(dir string) error {
	sites, ri, err := enumerateSites(c08repoRoot())
	if err != nil {
		return err
	}
	if len(sites) == 0 {
		return fmt.Errorf("no sites found (wrong repo root %q?)", c08repoRoot())
	}
	var b strings.Builder
	b.WriteString("(* GENERATED by `vharness gen` (harness/gen_mapsites.go) from the Go source of evylang/evy — do not edit.\n")
	b.WriteString("   Every `for … range <map>` statement (go/types: operand of map type) and every other source of\n")
	b.WriteString("   run-to-run variation (clock, global PRNG, goroutines/select, %p) in the production build of\n")
	b.WriteString("   pkg/lexer, pkg/parser, pkg/evaluator, pkg/cli/svg, pkg/cli and package main.\n")
	b.WriteString("   Ids are line-independent: <package>.<function>#<ordinal of the site within the function>. *)\n")
	b.WriteString("From Coq Require Import String List.\nImport ListNotations.\nLocal Open Scope string_scope.\n\n")
	b.WriteString("(* (id, ranged operand, key-only loop?) *)\n")
	b.WriteString("Definition map_range_sites : list (string * string * bool) := [\n")
	first := true
	for _, s := range sites {
		if s.Kind != "map-range" && s.Kind != "untyped-range" {
			continue
		}
		if !first {
			b.WriteString(";\n")
		}
		first = false
		fmt.Fprintf(&b, "  (%s, %s, %v)  (* %s: %s *)", c08coqStr(s.ID), c08coqStr(s.Expr), s.KeyOnly, s.File, s.Typ)
	}
	b.WriteString("\n].\n\n")
	b.WriteString("(* (id, what) : clock / global PRNG / scheduling / pointer formatting *)\n")
	b.WriteString("Definition other_nondet_sites : list (string * string) := [\n")
	first = true
	for _, s := range sites {
		if s.Kind == "map-range" || s.Kind == "untyped-range" {
			continue
		}
		if !first {
			b.WriteString(";\n")
		}
		first = false
		fmt.Fprintf(&b, "  (%s, %s)  (* %s *)", c08coqStr(s.ID), c08coqStr(s.Expr), s.File)
	}
	b.WriteString("\n].\n\n")
	b.WriteString("(* package-level variables that could carry state from one run to the next in the same process:\n")
	b.WriteString("   (id, flags) with flags = ref|value [,written] [,addr]  — see harness/gen_mapsites.go *)\n")
	b.WriteString("Definition package_state_sites : list (string * string) := [\n")
	for i, v := range enumerateState(ri) {
		if i > 0 {
			b.WriteString(";\n")
		}
		fmt.Fprintf(&b, "  (%s, %s)  (* %s *)", c08coqStr(v.ID), c08coqStr(v.Flags), strings.ReplaceAll(v.Typ, "*", "^"))
	}
	b.WriteString("\n].\n\n")
	// parseProgram / NewEvaluator copy builtins.Globals into the scope under the
	// entry's Name field, not under its map key: the table lets Coq check that
	// the Names are pairwise distinct (else the copy would be order dependent).
	b.WriteString("(* (map key, Name field) of evaluator.BuiltinDecls().Globals *)\n")
	b.WriteString("Definition builtin_globals : list (string * string) := [\n")
	gl := evaluator.BuiltinDecls().Globals
	gk := make([]string, 0, len(gl))
	for k := range gl {
		gk = append(gk, k)
	}
	sort.Strings(gk)
	for i, k := range gk {
		if i > 0 {
			b.WriteString(";\n")
		}
		fmt.Fprintf(&b, "  (%s, %s)", c08coqStr(k), c08coqStr(gl[k].Name))
	}
	b.WriteString("\n].\n")
	return os.WriteFile(filepath.Join(dir, "MapSites.v"), []byte(b.String()), 0o644)
}

func init() { generators = append(generators, genMapSites) }
