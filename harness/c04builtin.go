package main

// C04 — call results of BUILT-IN functions as a value form.
//
// FuncCall.Type() is fixedType(FuncDef.ReturnType) whoever declares the
// function, so the result of a built-in (split: []string, len: num, …) is a
// variable-like, non-constant value exactly like the result of a user-defined
// function. The list of built-ins with a result and their result types is
// taken from the model side — the table regenerated from
// evaluator.BuiltinDecls() (coq/Gen/BuiltinSigs.v, resolved by name in
// coq/TypesBuiltin.v: the wire form is (bcall "name")) — the argument lists
// are built from the parameter types of the real declarations.
//
// Every such call is crossed with the value-form shapes (bare, grouped, as an
// element of an array / map literal, next to a literal of another element
// type, as an operand of a concatenation) and with every context family
// (decl / assign / param / variadic / return against the result type, any and
// the any-based composites, generic-array / generic-map parameter, condition,
// range operand), compared with the implementation model and with TypesSpec.

import (
	"fmt"
	"sort"
	"strings"

	"evylang.dev/evy/pkg/evaluator"
	"evylang.dev/evy/pkg/parser"
)

// styOfSX decodes the model's wire syntax of a source type
func styOfSX(x SX) *sty {
	if x.Kind == "lst" && len(x.L) == 2 {
		s := styOfSX(x.L[1])
		if s == nil {
			return nil
		}
		return &sty{K: x.L[0].S, Sub: s}
	}
	switch x.S {
	case "num", "string", "bool", "any":
		return &sty{K: x.S}
	}
	return nil
}

// styOfParam: the closed source type of a parameter type, nil for the generic ones
func styOfParam(t *parser.Type) *sty {
	if t == nil || t == parser.GENERIC_ARRAY || t == parser.GENERIC_MAP {
		return nil
	}
	switch t.Name {
	case parser.NUM:
		return c04tNum
	case parser.STRING:
		return c04tStr
	case parser.BOOL:
		return tBoo
	case parser.ANY:
		return c04tAny
	case parser.ARRAY, parser.MAP:
		if t.Sub == nil {
			return nil
		}
		s := styOfParam(t.Sub)
		if s == nil {
			return nil
		}
		k := "arr"
		if t.Name == parser.MAP {
			k = "map"
		}
		return &sty{K: k, Sub: s}
	}
	return nil
}

// argument source text: a constant of the parameter type
func c04ArgConst(t *parser.Type) string {
	switch {
	case t == parser.GENERIC_ARRAY:
		return "[1]"
	case t == parser.GENERIC_MAP:
		return "{a:1}"
	}
	switch t.Name {
	case parser.NUM:
		return "1"
	case parser.STRING, parser.ANY:
		return `"a"`
	case parser.BOOL:
		return "true"
	case parser.ARRAY:
		if t.Sub == nil {
			return "[1]"
		}
		return "[" + c04ArgConst(t.Sub) + "]"
	case parser.MAP:
		if t.Sub == nil {
			return "{a:1}"
		}
		return "{a:" + c04ArgConst(t.Sub) + "}"
	}
	return "1"
}

type c04Builtin struct {
	Name   string
	Ret    *sty
	Params []*parser.Type // fixed parameters, then one variadic argument if the function is variadic
}

// ebcall: the call of a built-in; Op = name, T = result type, style "const" | "var" (arguments)
func ebcall(b c04Builtin, style string) *pexpr {
	e := &pexpr{K: "bcall", Op: b.Name, T: b.Ret}
	for _, p := range b.Params {
		if t := styOfParam(p); style == "var" && t != nil {
			e.Args = append(e.Args, evar(t))
		} else {
			e.Args = append(e.Args, &pexpr{K: "src", Op: c04ArgConst(p)})
		}
	}
	return e
}

// c04BuiltinTable: rows of the regenerated table (model side) joined with the real declarations
func c04BuiltinTable(r *Result, model *Model) []c04Builtin {
	ans, err := model.Ask("(builtins)")
	if err != nil {
		c04Violate(r, Violation{Kind: "correspondence", Key: "model-error", Detail: err.Error()})
		return nil
	}
	v, err := ParseSX(ans)
	if err != nil || v.Kind != "lst" || len(v.L) == 0 {
		c04Violate(r, Violation{Kind: "correspondence", Key: "model-decode", Detail: "builtins: " + ans})
		return nil
	}
	decls := evaluator.BuiltinDecls().Funcs
	inTable := map[string]bool{}
	var out []c04Builtin
	for _, row := range v.L {
		if row.Kind != "lst" || len(row.L) != 2 {
			continue
		}
		name, ret := row.L[0].S, styOfSX(row.L[1])
		inTable[name] = true
		d := decls[name]
		if ret == nil || d == nil || d.ReturnType == nil || d.ReturnType.String() != ret.src() {
			got := "<not declared>"
			if d != nil && d.ReturnType != nil {
				got = d.ReturnType.String()
			}
			c04Violate(r, Violation{Kind: "correspondence", Key: "builtin-table-result-type",
				Detail: fmt.Sprintf("built-in %s: regenerated table says %s, evaluator.BuiltinDecls says %s", name, row.L[1].String(), got), Input: name})
			continue
		}
		b := c04Builtin{Name: name, Ret: ret}
		for _, p := range d.Params {
			b.Params = append(b.Params, p.T)
		}
		if d.VariadicParam != nil {
			b.Params = append(b.Params, d.VariadicParam.T)
		}
		out = append(out, b)
	}
	for name, d := range decls {
		if d.ReturnType != nil && d.ReturnType != parser.NONE_TYPE && !inTable[name] {
			c04Violate(r, Violation{Kind: "correspondence", Key: "builtin-table-result-type",
				Detail: fmt.Sprintf("built-in %s returns %s but is not a row with a result of the regenerated table", name, d.ReturnType.String()), Input: name})
		}
	}
	sort.Slice(out, func(i, j int) bool { return out[i].Name < out[j].Name })
	return out
}

func c04BuiltinCalls(cfg Config, r *Result, model, spec *Model) {
	table := c04BuiltinTable(r, model)
	if len(table) == 0 {
		return
	}
	group := func(e *pexpr) *pexpr { return lit("group", e) }
	// the built-ins taken through the full crossing: every one with a composite or any result,
	// and per basic result type two (quick, rotating with the seed) / all (thorough)
	perType := map[string][]c04Builtin{}
	for _, b := range table {
		perType[b.Ret.src()] = append(perType[b.Ret.src()], b)
	}
	full := map[string]bool{}
	retKeys := make([]string, 0, len(perType))
	for k := range perType {
		retKeys = append(retKeys, k)
	}
	sort.Strings(retKeys)
	for _, k := range retKeys {
		bs := perType[k]
		basic := k == "num" || k == "string" || k == "bool"
		n := len(bs)
		if basic {
			n = cfg.N(2, len(bs))
		}
		off := cfg.Rng.Intn(len(bs))
		for i := 0; i < n && i < len(bs); i++ {
			full[bs[(off+i)%len(bs)].Name] = true
		}
	}
	n := 0
	do := func(c pctx, kind string, e *pexpr) {
		c04DoCell(r, model, spec, c04Cell{Ctx: c, Form: valueForm{kind, e, false}}, "")
		n++
	}
	for _, b := range table {
		t := b.Ret
		composite := t.K == "arr" || t.K == "map"
		class := "basic"
		if composite {
			class = "composite"
		}
		// every built-in at least once, bare and grouped, declared and assigned to its own type and to any
		for _, style := range []string{"const", "var"} {
			do(pctx{K: "decl"}, "builtin-call", ebcall(b, style))
			do(pctx{K: "assign", T: t}, "builtin-call", ebcall(b, style))
			do(pctx{K: "assign", T: c04tAny}, "builtin-call-group", group(ebcall(b, style)))
			do(pctx{K: "assign", T: &sty{K: "arr", Sub: c04tAny}}, "literal-with-builtin-call-"+class, lit("arr", group(ebcall(b, style))))
		}
		if !full[b.Name] {
			continue
		}
		styles := []string{"const"}
		if composite || cfg.N(0, 1) == 1 {
			styles = append(styles, "var")
		}
		targets := []*sty{t, c04tAny, {K: "arr", Sub: c04tAny}, {K: "map", Sub: c04tAny},
			{K: "arr", Sub: t}, {K: "map", Sub: t},
			{K: "arr", Sub: &sty{K: "arr", Sub: c04tAny}}, {K: "arr", Sub: &sty{K: "map", Sub: c04tAny}}, {K: "map", Sub: &sty{K: "arr", Sub: c04tAny}}}
		if composite {
			targets = append(targets, &sty{K: t.K, Sub: c04tAny}, &sty{K: "arr", Sub: &sty{K: t.K, Sub: c04tAny}}, &sty{K: "map", Sub: &sty{K: t.K, Sub: c04tAny}})
		}
		var ctxs, bareCtxs []pctx
		ctxs = append(ctxs, pctx{K: "decl"}, pctx{K: "cond"}, pctx{K: "range"}, pctx{K: "garr"}, pctx{K: "gmap"})
		bareCtxs = append(bareCtxs, pctx{K: "decl"})
		for _, tg := range targets {
			for _, k := range []string{"assign", "param", "variadic", "return"} {
				ctxs = append(ctxs, pctx{K: k, T: tg})
			}
			bareCtxs = append(bareCtxs, pctx{K: "assign", T: tg}, pctx{K: "return", T: tg})
		}
		sibling := lit("s")
		if t.K == "string" {
			sibling = lit("n")
		}
		if composite {
			sibling = otherLit(t)
		}
		for _, style := range styles {
			call := func() *pexpr { return group(ebcall(b, style)) }
			for _, c := range bareCtxs {
				do(c, "builtin-call", ebcall(b, style))
			}
			forms := []valueForm{
				{"builtin-call-group", call(), false},
				{"literal-with-builtin-call-" + class, lit("arr", call()), false},
				{"literal-with-builtin-call-" + class, lit("map", call()), false},
				{"literal-with-nested-builtin-call-" + class, lit("arr", lit("map", call())), false},
				{"literal-builtin-call-then-literal-" + class, lit("arr", call(), sibling), false},
				{"literal-then-builtin-call-" + class, lit("arr", sibling, call()), false},
				{"literal-with-builtin-call-and-empty-" + class, lit("arr", call(), lit("arr")), false},
			}
			if c := constLit(t); c != nil {
				forms = append(forms,
					valueForm{"literal-same-literal-then-builtin-call-" + class, lit("arr", c, call()), false},
					valueForm{"literal-builtin-call-then-same-literal-" + class, lit("arr", call(), c), false})
				if t.K == "arr" {
					forms = append(forms,
						valueForm{"concat-builtin-call-literal", ebin("+", call(), c), false},
						valueForm{"concat-literal-builtin-call", ebin("+", c, call()), false},
						valueForm{"concat-builtin-call-empty", ebin("+", call(), lit("arr")), false},
						valueForm{"concat-empty-builtin-call", ebin("+", lit("arr"), call()), false},
						valueForm{"concat-builtin-call-other-literal", ebin("+", call(), otherLit(t)), false},
						valueForm{"concat-of-literals-with-builtin-call", ebin("+", lit("arr", c), lit("arr", call())), false},
						valueForm{"concat-builtin-calls", ebin("+", call(), call()), false},
						valueForm{"repeat-builtin-call", ebin("*", call(), lit("n")), false},
						valueForm{"slice-of-builtin-call", &pexpr{K: "slice", Args: []*pexpr{call(), lit("n"), nil}}, false},
						valueForm{"index-of-builtin-call", lit("index", call(), lit("n")), false})
				}
			}
			for _, c := range ctxs {
				for _, f := range forms {
					do(c, f.Kind, f.E)
				}
			}
		}
	}
	names := make([]string, 0, len(full))
	for k := range full {
		names = append(names, k)
	}
	sort.Strings(names)
	r.Note("built-in call results: %d built-ins with a result (rows of the regenerated table coq/Gen/BuiltinSigs.v, resolved by name in the model; result types cross-checked with evaluator.BuiltinDecls), each with constant and with variable arguments bare / grouped / inside an array literal in decl and assign; full crossing for %s: bare, grouped, [call], {k:call}, [{k:call}], [call other] [other call] [call []] [same call] [call same], and for array results call+lit lit+call call+[] []+call call+other [lit]+[call] call+call call*n call[1:] call[1] x decl, cond, range, generic parameters and assign/param/variadic/return against the result type, any, []any, {}any, []T, {}T, [][]any, []{}any, {}[]any (+ the any-based forms of the result's own shape) = %d programs", len(table), strings.Join(names, " "), n)
}
