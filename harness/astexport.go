package main

import (
	"fmt"
	"sort"

	"evylang.dev/evy/pkg/parser"
)

// AST export (route B): serialise a *parser.Program into the S-expression
// format decoded by coq/Ast.v. Only exported fields of the AST are read.

func tySX(t *parser.Type) SX {
	switch {
	case t == nil:
		return Sym("none")
	case t == parser.EMPTY_ARRAY:
		return Sym("earr")
	case t == parser.EMPTY_MAP:
		return Sym("emap")
	case t == parser.GENERIC_ARRAY:
		return Sym("garr")
	case t == parser.GENERIC_MAP:
		return Sym("gmap")
	}
	switch t.Name {
	case parser.NUM:
		return Sym("num")
	case parser.STRING:
		return Sym("string")
	case parser.BOOL:
		return Sym("bool")
	case parser.ANY:
		return Sym("any")
	case parser.NONE:
		return Sym("none")
	case parser.ARRAY:
		if t.Sub == nil {
			return Sym("garr")
		}
		return Lst(Sym("arr"), tySX(t.Sub))
	case parser.MAP:
		if t.Sub == nil {
			return Sym("gmap")
		}
		return Lst(Sym("map"), tySX(t.Sub))
	}
	return Sym("none")
}

type astExporter struct {
	funcs    map[string]*parser.FuncDefStmt
	handlers []*parser.EventHandlerStmt
	err      error
}

func (x *astExporter) optExpr(n parser.Node) SX {
	if n == nil || isNilNode(n) {
		return Sym("nil")
	}
	return x.expr(n)
}

func isNilNode(n parser.Node) bool {
	switch v := n.(type) {
	case *parser.Var:
		return v == nil
	case *parser.NumLiteral:
		return v == nil
	case *parser.BlockStatement:
		return v == nil
	}
	return false
}

func (x *astExporter) exprs(ns []parser.Node) []SX {
	out := make([]SX, len(ns))
	for i, n := range ns {
		out[i] = x.expr(n)
	}
	return out
}

func (x *astExporter) expr(n parser.Node) SX {
	switch n := n.(type) {
	case *parser.NumLiteral:
		return Lst(Sym("num"), Float(n.Value))
	case *parser.StringLiteral:
		return Lst(Sym("str"), Str(n.Value))
	case *parser.BoolLiteral:
		return Lst(Sym("bool"), Bool(n.Value))
	case *parser.Var:
		return Lst(Sym("var"), Str(n.Name), tySX(n.T))
	case *parser.Any:
		return Lst(Sym("any"), x.expr(n.Value), tySX(n.Value.Type()))
	case *parser.ArrayLiteral:
		return LstOf(append([]SX{Sym("arr"), tySX(n.T)}, x.exprs(n.Elements)...))
	case *parser.MapLiteral:
		l := []SX{Sym("maplit"), tySX(n.T)}
		for _, k := range n.Order {
			l = append(l, Lst(Str(k), x.expr(n.Pairs[k])))
		}
		return LstOf(l)
	case *parser.FuncCall:
		if n.FuncDef != nil && n.FuncDef.Body != nil {
			x.funcs[n.Name] = n.FuncDef
		}
		return LstOf(append([]SX{Sym("call"), Str(n.Name), tySX(n.Type())}, x.exprs(n.Arguments)...))
	case *parser.UnaryExpression:
		return Lst(Sym("un"), Sym(n.Op.String()), x.expr(n.Right))
	case *parser.BinaryExpression:
		return Lst(Sym("bin"), Sym(n.Op.String()), tySX(n.T), x.expr(n.Left), x.expr(n.Right))
	case *parser.IndexExpression:
		return Lst(Sym("idx"), tySX(n.T), x.expr(n.Left), x.expr(n.Index))
	case *parser.SliceExpression:
		return Lst(Sym("slice"), tySX(n.T), x.expr(n.Left), x.optExpr(n.Start), x.optExpr(n.End))
	case *parser.DotExpression:
		return Lst(Sym("dot"), tySX(n.T), x.expr(n.Left), Str(n.Key))
	case *parser.GroupExpression:
		return Lst(Sym("group"), x.expr(n.Expr))
	case *parser.TypeAssertion:
		return Lst(Sym("assert"), tySX(n.T), x.expr(n.Left))
	}
	x.err = fmt.Errorf("unexportable expression node %T", n)
	return Sym("bad")
}

func (x *astExporter) block(b *parser.BlockStatement) []SX {
	if b == nil {
		return nil
	}
	return x.stmts(b.Statements)
}

func (x *astExporter) stmts(ns []parser.Node) []SX {
	out := make([]SX, 0, len(ns))
	for _, n := range ns {
		out = append(out, x.stmt(n))
	}
	return out
}

func (x *astExporter) stmt(n parser.Node) SX {
	switch n := n.(type) {
	case *parser.TypedDeclStmt:
		return Lst(Sym("decl"), Str(n.Decl.Var.Name), tySX(n.Decl.Var.T), x.expr(n.Decl.Value))
	case *parser.InferredDeclStmt:
		return Lst(Sym("decl"), Str(n.Decl.Var.Name), tySX(n.Decl.Var.T), x.expr(n.Decl.Value))
	case *parser.AssignmentStmt:
		return Lst(Sym("assign"), x.expr(n.Target), x.expr(n.Value))
	case *parser.FuncCallStmt:
		if n.FuncCall.FuncDef != nil && n.FuncCall.FuncDef.Body != nil {
			x.funcs[n.FuncCall.Name] = n.FuncCall.FuncDef
		}
		return LstOf(append([]SX{Sym("callstmt"), Str(n.FuncCall.Name)}, x.exprs(n.FuncCall.Arguments)...))
	case *parser.ReturnStmt:
		return Lst(Sym("ret"), x.optExpr(n.Value))
	case *parser.BreakStmt:
		return Lst(Sym("break"))
	case *parser.IfStmt:
		conds := []SX{LstOf(append([]SX{x.expr(n.IfBlock.Condition)}, x.block(n.IfBlock.Block)...))}
		for _, c := range n.ElseIfBlocks {
			conds = append(conds, LstOf(append([]SX{x.expr(c.Condition)}, x.block(c.Block)...)))
		}
		els := Sym("nil")
		if n.Else != nil {
			els = LstOf(x.block(n.Else))
		}
		return Lst(Sym("if"), LstOf(conds), els)
	case *parser.WhileStmt:
		return LstOf(append([]SX{Sym("while"), x.expr(n.Condition)}, x.block(n.Block)...))
	case *parser.ForStmt:
		v, vt := Sym("nil"), Sym("none")
		if n.LoopVar != nil {
			v, vt = Str(n.LoopVar.Name), tySX(n.LoopVar.T)
		}
		var r SX
		if sr, ok := n.Range.(*parser.StepRange); ok {
			r = Lst(Sym("step"), x.optExpr(sr.Start), x.expr(sr.Stop), x.optExpr(sr.Step))
		} else {
			r = Lst(Sym("expr"), x.expr(n.Range))
		}
		return LstOf(append([]SX{Sym("for"), v, vt, r}, x.block(n.Block)...))
	case *parser.FuncDefStmt:
		x.funcs[n.Name] = n
		return Lst(Sym("nop"))
	case *parser.EventHandlerStmt:
		x.handlers = append(x.handlers, n)
		return Lst(Sym("nop"))
	case *parser.EmptyStmt:
		return Lst(Sym("nop"))
	}
	x.err = fmt.Errorf("unexportable statement node %T", n)
	return Sym("bad")
}

func paramsSX(ps []*parser.Var) SX {
	l := make([]SX, len(ps))
	for i, p := range ps {
		l[i] = Lst(Str(p.Name), tySX(p.T))
	}
	return LstOf(l)
}

// ExportProgram serialises prog for coq/Ast.v's dec_program.
func ExportProgram(prog *parser.Program) (SX, error) {
	x := &astExporter{funcs: map[string]*parser.FuncDefStmt{}}
	top := x.stmts(prog.Statements)
	// function bodies may reference further functions; iterate to a fixpoint
	done := map[string]SX{}
	for {
		names := []string{}
		for name := range x.funcs {
			if _, ok := done[name]; !ok {
				names = append(names, name)
			}
		}
		if len(names) == 0 {
			break
		}
		sort.Strings(names)
		for _, name := range names {
			f := x.funcs[name]
			v := Sym("nil")
			if f.VariadicParam != nil {
				v = Lst(Str(f.VariadicParam.Name), tySX(f.VariadicParam.T))
			}
			done[name] = LstOf(append([]SX{Sym("func"), Str(name), paramsSX(f.Params), v, tySX(f.ReturnType)}, x.block(f.Body)...))
		}
	}
	fnames := make([]string, 0, len(done))
	for name := range done {
		fnames = append(fnames, name)
	}
	sort.Strings(fnames)
	funcs := make([]SX, 0, len(fnames))
	for _, name := range fnames {
		funcs = append(funcs, done[name])
	}
	hs := []SX{}
	hnames := make([]string, 0, len(prog.EventHandlers))
	for name := range prog.EventHandlers {
		hnames = append(hnames, name)
	}
	sort.Strings(hnames)
	for _, name := range hnames {
		h := prog.EventHandlers[name]
		hs = append(hs, LstOf(append([]SX{Sym("on"), Str(h.Name), paramsSX(h.Params)}, x.block(h.Body)...)))
	}
	if x.err != nil {
		return SX{}, x.err
	}
	return Lst(Sym("prog"), LstOf(funcs), LstOf(hs), LstOf(top)), nil
}
