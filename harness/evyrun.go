package main

import (
	"errors"
	"fmt"
	"runtime"
	"runtime/metrics"
	"strings"
	"time"

	"evylang.dev/evy/pkg/evaluator"
	"evylang.dev/evy/pkg/parser"
)

// recPlatform records every Platform call as a line of text.
type recPlatform struct {
	evaluator.UnimplementedPlatform
	Trace   []string // all effects in order, e.g. "print:hello\n"
	Prints  []string
	Input   []string // lines handed out by Read
	yielder *budgetYielder
}

type budgetYielder struct {
	n      int
	budget int
	onOver func()
	hook   func(n int) // called at every yield with the yield index (0-based)
}

// heapGuardBytes bounds the memory a generated program may make the evaluator allocate (a loop doubling a string
// reaches gigabytes within a small yield budget; the harness has no other memory limit). Exceeding it counts as an
// exhausted budget: the run is stopped and skipped, nothing is compared.
const heapGuardBytes = 256 << 20

var heapSample = []metrics.Sample{{Name: "/memory/classes/heap/objects:bytes"}}

var heapGuardTripped bool

// runawayGrace: yields a run may still make after the budget raised the stop flag before it is aborted by force
// (an interruptible evaluator makes none)
const runawayGrace = 2000

func heapOver() bool {
	metrics.Read(heapSample)
	return heapSample[0].Value.Kind() == metrics.KindUint64 && heapSample[0].Value.Uint64() > heapGuardBytes
}

func (y *budgetYielder) Yield() {
	if y.hook != nil {
		y.hook(y.n)
	}
	y.n++
	if y.budget > 0 && y.n > y.budget && y.onOver != nil {
		y.onOver()
		if y.n > y.budget+runawayGrace {
			// the stop flag was raised runawayGrace yields ago and the evaluator still evaluates: the run cannot be
			// interrupted through the evaluator; abort it through a Go panic (the runners recover: class gopanic)
			panic(fmt.Sprintf("harness: run not interruptible: %d further yields after the yield budget raised the stop flag", runawayGrace))
		}
	}
	if y.n == 1 && heapGuardTripped { // first yield of the next run: the previous evaluator is garbage now
		heapGuardTripped = false
		runtime.GC()
	}
	if y.n&15 == 0 && y.onOver != nil && heapOver() {
		heapGuardTripped = true
		y.onOver()
	}
}

func (p *recPlatform) eff(s string)               { p.Trace = append(p.Trace, s) }
func (p *recPlatform) Print(s string)             { p.Prints = append(p.Prints, s); p.eff("print:" + s) }
func (p *recPlatform) Cls()                       { p.eff("cls") }
func (p *recPlatform) Sleep(d time.Duration)      { p.eff(fmt.Sprintf("sleep:%d", int64(d))) }
func (p *recPlatform) Yielder() evaluator.Yielder { return p.yielder }
func (p *recPlatform) Move(x, y float64) {
	p.eff(fmt.Sprintf("move:%x:%x", canonBits(x), canonBits(y)))
}
func (p *recPlatform) Line(x, y float64) {
	p.eff(fmt.Sprintf("line:%x:%x", canonBits(x), canonBits(y)))
}
func (p *recPlatform) Rect(x, y float64) {
	p.eff(fmt.Sprintf("rect:%x:%x", canonBits(x), canonBits(y)))
}
func (p *recPlatform) Circle(r float64)          { p.eff(fmt.Sprintf("circle:%x", canonBits(r))) }
func (p *recPlatform) Width(w float64)           { p.eff(fmt.Sprintf("width:%x", canonBits(w))) }
func (p *recPlatform) Color(s string)            { p.eff("color:" + s) }
func (p *recPlatform) Clear(s string)            { p.eff("clear:" + s) }
func (p *recPlatform) Stroke(s string)           { p.eff("stroke:" + s) }
func (p *recPlatform) Fill(s string)             { p.eff("fill:" + s) }
func (p *recPlatform) Linecap(s string)          { p.eff("linecap:" + s) }
func (p *recPlatform) Text(s string)             { p.eff("text:" + s) }
func (p *recPlatform) Gridn(u float64, c string) { p.eff(fmt.Sprintf("gridn:%x:%s", canonBits(u), c)) }
func (p *recPlatform) Dash(segs []float64)       { p.eff(fmt.Sprintf("dash:%v", segs)) }
func (p *recPlatform) Poly(v [][]float64)        { p.eff(fmt.Sprintf("poly:%v", v)) }
func (p *recPlatform) Font(props map[string]any) { p.eff(fmt.Sprintf("font:%v", props)) } // fmt prints maps sorted by key
func (p *recPlatform) Ellipse(x, y, rx, ry, rot, sa, ea float64) {
	p.eff(fmt.Sprintf("ellipse:%x:%x:%x:%x:%x:%x:%x", canonBits(x), canonBits(y), canonBits(rx), canonBits(ry), canonBits(rot), canonBits(sa), canonBits(ea)))
}
func (p *recPlatform) Read() string {
	if len(p.Input) == 0 {
		p.eff("read:<eof>")
		return ""
	}
	s := p.Input[0]
	p.Input = p.Input[1:]
	p.eff("read:" + s)
	return s
}

// RunOutcome is the classified result of running a program on the real code.
type RunOutcome struct {
	ParseErr string // non-empty: rejected by parser.Parse
	Class    string // ok | panic:<sentinel> | exit:<n> | test | stopped | internal | gopanic | budget
	ErrText  string
	Prints   []string
	Trace    []string
	Yields   int
	GoPanic  string
	Eval     *evaluator.Evaluator
	Prog     *parser.Program
}

var sentinels = []struct {
	name string
	err  error
}{
	{"IndexValue", evaluator.ErrIndexValue}, {"Bounds", evaluator.ErrBounds}, {"RangeValue", evaluator.ErrRangevalue},
	{"MapKey", evaluator.ErrMapKey}, {"Slice", evaluator.ErrSlice}, {"BadArguments", evaluator.ErrBadArguments},
	{"BadRepetition", evaluator.ErrBadRepetition}, {"AnyConversion", evaluator.ErrAnyConversion}, {"VarNotSet", evaluator.ErrVarNotSet},
}

func classifyErr(err error) string {
	if err == nil {
		return "ok"
	}
	var ee evaluator.ExitError
	if errors.As(err, &ee) {
		return fmt.Sprintf("exit:%d", int(ee))
	}
	if errors.Is(err, evaluator.ErrStopped) {
		return "stopped"
	}
	if errors.Is(err, evaluator.ErrInternal) {
		return "internal"
	}
	for _, s := range sentinels {
		if errors.Is(err, s.err) {
			return "panic:" + s.name
		}
	}
	var pe evaluator.PanicError
	if errors.As(err, &pe) {
		return "panic:user"
	}
	if errors.Is(err, evaluator.ErrPanic) {
		return "panic:other"
	}
	if errors.Is(err, evaluator.ErrTest) {
		return "test"
	}
	var te evaluator.TestErrors
	if errors.As(err, &te) {
		return "test"
	}
	return "unknown:" + err.Error()
}

type RunOpts struct {
	Input       []string
	YieldBudget int // 0 = default 2_000_000
	YieldHook   func(n int, e *evaluator.Evaluator)
	FailFast    bool
	NoSummary   bool
}

// RunEvy parses and evaluates src on the real implementation with a recording
// platform, under recover and a yield budget (a program that exceeds it is
// stopped through the evaluator's own Stopped flag and reported as "budget").
func RunEvy(src string, o RunOpts) (out RunOutcome) {
	y := &budgetYielder{budget: o.YieldBudget}
	if y.budget == 0 {
		y.budget = 2_000_000
	}
	plat := &recPlatform{yielder: y, Input: append([]string(nil), o.Input...)}
	defer func() {
		out.Prints, out.Trace, out.Yields = plat.Prints, plat.Trace, y.n
		if r := recover(); r != nil {
			out.Class = "gopanic"
			out.GoPanic = fmt.Sprint(r)
		}
	}()
	prog, err := parser.Parse(src, evaluator.BuiltinDecls())
	if err != nil {
		out.ParseErr = err.Error()
		out.Class = "parse-error"
		return
	}
	out.Prog = prog
	ev := evaluator.NewEvaluator(plat)
	ev.TestInfo.FailFast = o.FailFast
	ev.TestInfo.NoTestSummary = o.NoSummary
	out.Eval = ev
	over := false
	y.onOver = func() { over = true; ev.Stopped = true }
	if o.YieldHook != nil {
		y.hook = func(n int) { o.YieldHook(n, ev) }
	}
	err = ev.Eval(prog)
	out.Class = classifyErr(err)
	if err != nil {
		out.ErrText = err.Error()
	}
	if over && out.Class == "stopped" {
		out.Class = "budget"
	}
	return
}

func joinLines(l []string) string { return strings.Join(l, "\x1e") }

func newEvaluatorFor(p *recPlatform) *evaluator.Evaluator { return evaluator.NewEvaluator(p) }
