package main

// Translator for the Pratt model (property C01, precedence/layout part):
// regenerates coq/Gen/Prec.v from the evy source tree the harness is built
// against.  Everything is obtained twice where two routes exist — statically
// with go/ast from pkg/lexer/token.go and pkg/parser/expression.go, and at run
// time from the lexer API and the hook parser.VerifPrecedences() — and the two
// are cross-checked; a mismatch is a translator error (the check then reports
// that the correspondence could not be established).
//
// Emitted:
//   toktype            one constructor T_<NAME> per lexer.TokenType constant
//   toktype_of_name    wire decoding (TokenType.String() names)
//   keyword_ident      lexer.Token.AsIdent: keyword token -> identifier text
//   lowestPrec … indexPrec   the `precedence` iota block of expression.go
//   precedences        the binding-power map (absent key = Go zero value = lowestPrec)
//   unary_operand_prec     argument of p.parseExpr(..) in parseUnaryExpr
//   binary_operand_prec    argument of p.parseExpr(..) in parseBinaryExpr, as a function of precedences[tok.Type]
//   loop_continues         the comparison `prec < precedences[p.cur.Type]` of parseExpr's loop

import (
	"fmt"
	"go/ast"
	goparser "go/parser"
	"go/token"
	"os"
	"path/filepath"
	"runtime/debug"
	"sort"
	"strings"

	"evylang.dev/evy/pkg/lexer"
	"evylang.dev/evy/pkg/parser"
)

// evyRepoDir is the directory of the evy module this binary was built against
// (the go.mod replace target), so that the static and the run-time route read
// the same tree — also when the harness is pointed at a scratch copy.
func evyRepoDir() string {
	if p := os.Getenv("VERIF_REPO"); p != "" {
		return p
	}
	if bi, ok := debug.ReadBuildInfo(); ok {
		for _, d := range bi.Deps {
			if d.Path == "evylang.dev/evy" && d.Replace != nil && d.Replace.Path != "" {
				return d.Replace.Path
			}
		}
	}
	return "/repo"
}

type precTable struct {
	tokNames   []string          // lexer.TokenType constants in iota order
	keywords   map[string]string // token name -> identifier text (AsIdent)
	precNames  []string          // precedence constants in iota order
	prec       map[string]string // token name -> precedence constant name
	unaryArg   string            // Coq term
	binaryArg  string            // Coq term over variable prec
	loopCmp    string            // Coq term over prec bp
	sourceNote []string
}

func constBlockNames(f *ast.File, typeName string) []string {
	for _, d := range f.Decls {
		gd, ok := d.(*ast.GenDecl)
		if !ok || gd.Tok != token.CONST || len(gd.Specs) == 0 {
			continue
		}
		vs := gd.Specs[0].(*ast.ValueSpec)
		id, ok := vs.Type.(*ast.Ident)
		if !ok || id.Name != typeName || len(vs.Values) != 1 {
			continue
		}
		if v, ok := vs.Values[0].(*ast.Ident); !ok || v.Name != "iota" {
			continue
		}
		var names []string
		for i, s := range gd.Specs {
			vs := s.(*ast.ValueSpec)
			if i > 0 && (vs.Type != nil || len(vs.Values) != 0) {
				return nil // not a plain iota block: refuse
			}
			if len(vs.Names) != 1 {
				return nil
			}
			names = append(names, vs.Names[0].Name)
		}
		return names
	}
	return nil
}

func findFunc(f *ast.File, name string) *ast.FuncDecl {
	for _, d := range f.Decls {
		if fd, ok := d.(*ast.FuncDecl); ok && fd.Name.Name == name && fd.Body != nil {
			return fd
		}
	}
	return nil
}

// parseExprArgs returns the argument expressions of every call p.parseExpr(x) in fd.
func parseExprArgs(fd *ast.FuncDecl) []ast.Expr {
	var args []ast.Expr
	ast.Inspect(fd.Body, func(n ast.Node) bool {
		if c, ok := n.(*ast.CallExpr); ok {
			if s, ok := c.Fun.(*ast.SelectorExpr); ok && s.Sel.Name == "parseExpr" && len(c.Args) == 1 {
				args = append(args, c.Args[0])
			}
		}
		return true
	})
	return args
}

func isPrecedencesIndex(e ast.Expr) bool {
	ix, ok := e.(*ast.IndexExpr)
	if !ok {
		return false
	}
	id, ok := ix.X.(*ast.Ident)
	return ok && id.Name == "precedences"
}

func readPrecTable(repo string) (*precTable, error) {
	t := &precTable{keywords: map[string]string{}, prec: map[string]string{}}
	fset := token.NewFileSet()
	tokFile, err := goparser.ParseFile(fset, filepath.Join(repo, "pkg/lexer/token.go"), nil, 0)
	if err != nil {
		return nil, err
	}
	t.tokNames = constBlockNames(tokFile, "TokenType")
	if len(t.tokNames) == 0 {
		return nil, fmt.Errorf("token.go: TokenType iota block not found")
	}
	// run-time cross-check of the token constants (names and numbering)
	for i, n := range t.tokNames {
		if got := lexer.TokenType(i).String(); got != n {
			return nil, fmt.Errorf("token type %d: go/ast says %s, lexer.TokenType.String says %s", i, n, got)
		}
		tok := &lexer.Token{Type: lexer.TokenType(i)}
		if id := tok.AsIdent(); lexer.TokenType(i) != lexer.IDENT && id.Type == lexer.IDENT {
			t.keywords[n] = id.Literal
		}
	}
	if got := lexer.TokenType(len(t.tokNames)).String(); got != "UNKNOWN" {
		return nil, fmt.Errorf("lexer has more token types than the const block (%s)", got)
	}

	exprFile, err := goparser.ParseFile(fset, filepath.Join(repo, "pkg/parser/expression.go"), nil, 0)
	if err != nil {
		return nil, err
	}
	t.precNames = constBlockNames(exprFile, "precedence")
	if len(t.precNames) == 0 {
		return nil, fmt.Errorf("expression.go: precedence iota block not found")
	}
	precVal := map[string]int{}
	for i, n := range t.precNames {
		precVal[n] = i
	}
	for _, n := range []string{"lowestPrec", "unaryPrec", "indexPrec"} {
		if _, ok := precVal[n]; !ok {
			return nil, fmt.Errorf("expression.go: precedence constant %s not found", n)
		}
	}
	if precVal["lowestPrec"] != 0 {
		return nil, fmt.Errorf("lowestPrec is not the zero value")
	}
	// the map literal
	found := false
	for _, d := range exprFile.Decls {
		gd, ok := d.(*ast.GenDecl)
		if !ok || gd.Tok != token.VAR {
			continue
		}
		for _, s := range gd.Specs {
			vs := s.(*ast.ValueSpec)
			if len(vs.Names) != 1 || vs.Names[0].Name != "precedences" || len(vs.Values) != 1 {
				continue
			}
			cl, ok := vs.Values[0].(*ast.CompositeLit)
			if !ok {
				return nil, fmt.Errorf("precedences is not a composite literal")
			}
			found = true
			for _, el := range cl.Elts {
				kv, ok := el.(*ast.KeyValueExpr)
				if !ok {
					return nil, fmt.Errorf("precedences: unexpected element")
				}
				ks, ok1 := kv.Key.(*ast.SelectorExpr)
				vi, ok2 := kv.Value.(*ast.Ident)
				if !ok1 || !ok2 {
					return nil, fmt.Errorf("precedences: unexpected key/value form")
				}
				if _, ok := precVal[vi.Name]; !ok {
					return nil, fmt.Errorf("precedences: value %s is not a precedence constant", vi.Name)
				}
				if _, dup := t.prec[ks.Sel.Name]; dup {
					return nil, fmt.Errorf("precedences: duplicate key %s", ks.Sel.Name)
				}
				t.prec[ks.Sel.Name] = vi.Name
			}
		}
	}
	if !found {
		return nil, fmt.Errorf("expression.go: var precedences not found")
	}
	// run-time cross-check through the hook
	hook := parser.VerifPrecedences()
	if len(hook) != len(t.prec) {
		return nil, fmt.Errorf("precedences: go/ast sees %d entries, VerifPrecedences %d", len(t.prec), len(hook))
	}
	for tt, v := range hook {
		cn, ok := t.prec[tt.String()]
		if !ok {
			return nil, fmt.Errorf("precedences: hook has %s, go/ast does not", tt)
		}
		if precVal[cn] != v {
			return nil, fmt.Errorf("precedences[%s]: go/ast %s=%d, hook %d", tt, cn, precVal[cn], v)
		}
	}

	// operand binding powers handed to the recursive calls, and the loop test
	un := findFunc(exprFile, "parseUnaryExpr")
	bin := findFunc(exprFile, "parseBinaryExpr")
	pe := findFunc(exprFile, "parseExpr")
	if un == nil || bin == nil || pe == nil {
		return nil, fmt.Errorf("expression.go: parseUnaryExpr/parseBinaryExpr/parseExpr not found")
	}
	ua := parseExprArgs(un)
	if len(ua) != 1 {
		return nil, fmt.Errorf("parseUnaryExpr: expected exactly one p.parseExpr call")
	}
	if id, ok := ua[0].(*ast.Ident); ok && precVal[id.Name] > 0 {
		t.unaryArg = id.Name
	} else {
		return nil, fmt.Errorf("parseUnaryExpr: parseExpr argument is not a precedence constant")
	}
	ba := parseExprArgs(bin)
	if len(ba) != 1 {
		return nil, fmt.Errorf("parseBinaryExpr: expected exactly one p.parseExpr call")
	}
	// the local the argument refers to must be bound as  <v> := precedences[tok.Type]
	var precVar string
	ast.Inspect(bin.Body, func(n ast.Node) bool {
		if as, ok := n.(*ast.AssignStmt); ok && as.Tok == token.DEFINE && len(as.Lhs) == 1 && len(as.Rhs) == 1 && isPrecedencesIndex(as.Rhs[0]) {
			precVar = as.Lhs[0].(*ast.Ident).Name
		}
		return true
	})
	if precVar == "" {
		return nil, fmt.Errorf("parseBinaryExpr: no local bound to precedences[tok.Type]")
	}
	switch a := ba[0].(type) {
	case *ast.Ident:
		if a.Name != precVar {
			return nil, fmt.Errorf("parseBinaryExpr: parseExpr argument %s is not %s", a.Name, precVar)
		}
		t.binaryArg = "prec"
	case *ast.BinaryExpr:
		x, ok1 := a.X.(*ast.Ident)
		y, ok2 := a.Y.(*ast.BasicLit)
		if !ok1 || !ok2 || x.Name != precVar || y.Kind != token.INT || (a.Op != token.ADD && a.Op != token.SUB) {
			return nil, fmt.Errorf("parseBinaryExpr: unrecognised parseExpr argument")
		}
		t.binaryArg = fmt.Sprintf("prec %s %s", a.Op.String(), y.Value) // nat subtraction truncates like nothing in Go: flagged below
		if a.Op == token.SUB {
			t.sourceNote = append(t.sourceNote, "binary operand power is prec - "+y.Value+" (Go int; Coq nat truncates at 0, equal on the table's range 1..)")
		}
	default:
		return nil, fmt.Errorf("parseBinaryExpr: unrecognised parseExpr argument")
	}
	// loop condition of parseExpr: last conjunct  prec <op> precedences[p.cur.Type]
	var cond ast.Expr
	ast.Inspect(pe.Body, func(n ast.Node) bool {
		if fs, ok := n.(*ast.ForStmt); ok && cond == nil {
			cond = fs.Cond
		}
		return true
	})
	var conj []ast.Expr
	var flat func(e ast.Expr)
	flat = func(e ast.Expr) {
		if b, ok := e.(*ast.BinaryExpr); ok && b.Op == token.LAND {
			flat(b.X)
			flat(b.Y)
			return
		}
		conj = append(conj, e)
	}
	if cond != nil {
		flat(cond)
	}
	if len(conj) != 3 {
		return nil, fmt.Errorf("parseExpr: loop condition is not a conjunction of three tests")
	}
	cmp, ok := conj[2].(*ast.BinaryExpr)
	if !ok || !isPrecedencesIndex(cmp.Y) {
		return nil, fmt.Errorf("parseExpr: third loop test is not a comparison with precedences[..]")
	}
	if x, ok := cmp.X.(*ast.Ident); !ok || x.Name != pe.Type.Params.List[0].Names[0].Name {
		return nil, fmt.Errorf("parseExpr: loop test does not compare the prec parameter")
	}
	switch cmp.Op {
	case token.LSS:
		t.loopCmp = "Nat.ltb prec bp"
	case token.LEQ:
		t.loopCmp = "Nat.leb prec bp"
	default:
		return nil, fmt.Errorf("parseExpr: unrecognised loop comparison %s", cmp.Op)
	}
	return t, nil
}

func genPrec(dir string) error {
	repo := evyRepoDir()
	t, err := readPrecTable(repo)
	if err != nil {
		return fmt.Errorf("gen_prec (%s): %w", repo, err)
	}
	var b strings.Builder
	w := func(f string, a ...any) { fmt.Fprintf(&b, f, a...) }
	w("(* GENERATED by harness/gen_prec.go from pkg/lexer/token.go and pkg/parser/expression.go\n")
	w("   (go/ast, cross-checked against lexer.TokenType.String, Token.AsIdent and the hook\n")
	w("   parser.VerifPrecedences). Do not edit; regenerated on every ./check run. *)\n")
	w("From Coq Require Import List String NArith Arith Bool.\nFrom EvyV Require Import Base.\nImport ListNotations.\nLocal Open Scope string_scope.\n\n")
	w("(* lexer.TokenType *)\nInductive toktype : Type :=\n")
	for _, n := range t.tokNames {
		w("| T_%s\n", n)
	}
	w(".\n\nScheme Equality for toktype.\n\n")
	w("Lemma toktype_beq_eq a b : toktype_beq a b = true <-> a = b.\nProof. split; [apply internal_toktype_dec_bl | apply internal_toktype_dec_lb]. Qed.\n\n")
	w("Definition all_toktypes : list toktype :=\n  [%s].\n\n", "T_"+strings.Join(t.tokNames, "; T_"))
	w("Lemma all_toktypes_complete t : In t all_toktypes.\nProof. destruct t; simpl; tauto. Qed.\n\n")
	w("(* TokenType.String *)\nDefinition toktype_name (t : toktype) : string :=\n  match t with\n")
	for _, n := range t.tokNames {
		w("  | T_%s => \"%s\"\n", n, n)
	}
	w("  end.\n\n")
	w("Definition toktype_of_name (s : str) : option toktype :=\n  find (fun t => str_eqb s (s_ (toktype_name t))) all_toktypes.\n\n")
	w("(* Token.AsIdent: the identifier a keyword token stands for where keywords are allowed as names *)\n")
	w("Definition keyword_ident (t : toktype) : option string :=\n  match t with\n")
	kws := make([]string, 0, len(t.keywords))
	for k := range t.keywords {
		kws = append(kws, k)
	}
	sort.Strings(kws)
	for _, k := range kws {
		w("  | T_%s => Some \"%s\"\n", k, t.keywords[k])
	}
	w("  | _ => None\n  end.\n\n")
	w("(* type precedence int; const ( lowestPrec = iota ... ) *)\n")
	for i, n := range t.precNames {
		w("Definition %s : nat := %d.\n", n, i)
	}
	w("\n(* var precedences = map[lexer.TokenType]precedence{...}; a missing key reads as the zero value *)\n")
	w("Definition precedences (t : toktype) : nat :=\n  match t with\n")
	for _, n := range t.tokNames {
		if c, ok := t.prec[n]; ok {
			w("  | T_%s => %s\n", n, c)
		}
	}
	w("  | _ => lowestPrec\n  end.\n\n")
	w("(* parseUnaryExpr: unaryExp.Right = p.parseExpr(%s) *)\n", t.unaryArg)
	w("Definition unary_operand_prec : nat := %s.\n\n", t.unaryArg)
	w("(* parseBinaryExpr: prec := precedences[tok.Type]; binaryExp.Right = p.parseExpr(..) *)\n")
	w("Definition binary_operand_prec (prec : nat) : nat := %s.\n\n", t.binaryArg)
	w("(* parseExpr: for left != nil && !p.isAtExprEnd() && prec <op> precedences[p.cur.Type] *)\n")
	w("Definition loop_continues (prec bp : nat) : bool := %s.\n", t.loopCmp)
	for _, n := range t.sourceNote {
		w("(* note: %s *)\n", n)
	}
	return os.WriteFile(filepath.Join(dir, "Prec.v"), []byte(b.String()), 0o644)
}

func init() { generators = append(generators, genPrec) }
