package main

import (
	"context"
	"errors"
	"encoding/json"
	"fmt"
	"math/rand"
	"os"
	"os/exec"
	"sort"
	"strings"
	"time"

	"bufio"

	"evylang.dev/evy/pkg/bytecode"
	"evylang.dev/evy/pkg/evaluator"
	"evylang.dev/evy/pkg/parser"
)

// C17: (1) symbol-table histories against the real SymbolTable and the
// extracted SymTab model; (2) the REAL compiler's output for generated
// programs validated by the extracted, proved-sound wf_check, and the real VM
// run on it under recover/timeouts with sp compared to LocalCount.

// ---------- model process with a large stack (big byte lists) ----------
func StartModelBig(name string) (*Model, error) {
	cmd := exec.Command("sh", "-c", "ulimit -s 4000000 2>/dev/null || ulimit -s unlimited 2>/dev/null; exec \"$0\" \"$1\"", modelBin(), name)
	in, err := cmd.StdinPipe()
	if err != nil {
		return nil, err
	}
	out, err := cmd.StdoutPipe()
	if err != nil {
		return nil, err
	}
	cmd.Stderr = os.Stderr
	if err := cmd.Start(); err != nil {
		return nil, err
	}
	return &Model{cmd: cmd, in: in, out: bufio.NewReaderSize(out, 1<<22), name: name}, nil // name: AskT restarts the model by name after a timeout
}

// ---------- symbol table ----------
type symOp struct {
	Kind string // push pop define resolve
	Name string
}

func genSymHistory(rng *rand.Rand, n int) []symOp {
	names := []string{"a", "b", "c", "x", "y"}
	ops := make([]symOp, 0, n)
	depth := 0
	for i := 0; i < n; i++ {
		switch k := rng.Intn(10); {
		case k < 2:
			ops = append(ops, symOp{Kind: "push"})
			depth++
		case k < 4:
			ops = append(ops, symOp{Kind: "pop"}) // also on the global table (returns itself)
			if depth > 0 {
				depth--
			}
		case k < 8:
			ops = append(ops, symOp{Kind: "define", Name: names[rng.Intn(len(names))]})
		default:
			ops = append(ops, symOp{Kind: "resolve", Name: names[rng.Intn(len(names))]})
		}
	}
	return ops
}

func symSX(s bytecode.Symbol) string {
	return fmt.Sprintf("(%s %s %d)", quoteSX(s.Name), string(s.Scope), s.Index)
}

// runSymImpl runs the history on the real SymbolTable; returns per-op results,
// the dump of the chain (current first) and the property-oracle verdict.
func runSymImpl(ops []symOp) (results []string, dump []string, oracle string) {
	t := bytecode.NewSymbolTable()
	var returned []bytecode.Symbol
	for _, o := range ops {
		switch o.Kind {
		case "push":
			t = t.Push()
			results = append(results, "none")
		case "pop":
			t = t.Pop()
			results = append(results, "none")
		case "define":
			s := t.Define(o.Name)
			returned = append(returned, s)
			results = append(results, symSX(s))
		case "resolve":
			s, ok := t.Resolve(o.Name)
			if ok {
				returned = append(returned, s)
				results = append(results, symSX(s))
			} else {
				results = append(results, "missing")
			}
		}
	}
	// oracle 1: no two live symbols (in any table of the chain) share (scope, index)
	seen := map[string]string{}
	depth := 0
	for u := t; u != nil; u = u.VerifOuter() {
		syms := u.VerifSymbols()
		parts := make([]string, len(syms))
		for i, s := range syms {
			parts[i] = symSX(s)
			k := fmt.Sprintf("%s/%d", s.Scope, s.Index)
			who := fmt.Sprintf("%s@%d", s.Name, depth)
			if prev, dup := seen[k]; dup && oracle == "" {
				oracle = fmt.Sprintf("slot %s shared by %s and %s", k, prev, who)
			}
			seen[k] = who
		}
		dump = append(dump, fmt.Sprintf("(%d %d (%s))", u.VerifIndex(), u.VerifNestedMaxIndex(), strings.Join(parts, " ")))
		depth++
	}
	// oracle 2: after closing all scopes every local index ever handed out is < nestedMaxIndex of the root
	root := t
	for root.VerifOuter() != nil {
		root = root.Pop()
	}
	for _, s := range returned {
		if s.Scope == bytecode.LocalScope && s.Index >= root.VerifNestedMaxIndex() && oracle == "" {
			oracle = fmt.Sprintf("local %s has index %d >= LocalCount %d", s.Name, s.Index, root.VerifNestedMaxIndex())
		}
	}
	return
}

func sortSymDump(d string) string {
	// (index nmax (sym…)) with syms in arbitrary order -> sorted by text
	x, err := ParseSX(d)
	if err != nil || len(x.L) != 3 {
		return d
	}
	syms := make([]string, len(x.L[2].L))
	for i, s := range x.L[2].L {
		syms[i] = s.String()
	}
	sort.Strings(syms)
	return fmt.Sprintf("(%s %s (%s))", x.L[0].S, x.L[1].S, strings.Join(syms, " "))
}

func c17SymCase(ops []symOp, model *Model, r *Result) {
	parts := make([]string, len(ops))
	nontrivial := false
	pushes, defs := 0, 0
	for i, o := range ops {
		if o.Name != "" {
			parts[i] = fmt.Sprintf("(%s %s)", o.Kind, quoteSX(o.Name))
		} else {
			parts[i] = "(" + o.Kind + ")"
		}
		if o.Kind == "push" {
			pushes++
		}
		if o.Kind == "define" {
			defs++
		}
	}
	nontrivial = pushes >= 1 && defs >= 2 && len(ops) >= 4
	caseSX := "(" + strings.Join(parts, " ") + ")"
	r.Count("sym:"+caseSX, nontrivial)
	r.Dist("symtab-history")
	res, dump, oracle := runSymImpl(ops)
	if oracle != "" {
		r.Violate(Violation{Kind: "property", Key: "symtab-slot-sharing", Detail: oracle, Input: map[string]any{"history": caseSX}})
	}
	ans, err := model.Ask(caseSX)
	if err != nil {
		r.Violate(Violation{Kind: "correspondence", Key: "model-crash", Detail: err.Error(), Input: caseSX})
		return
	}
	mx, err := ParseSX(ans)
	if err != nil || len(mx.L) != 2 {
		r.Violate(Violation{Kind: "correspondence", Key: "model-output", Detail: ans, Input: caseSX})
		return
	}
	mres := make([]string, len(mx.L[0].L))
	for i, x := range mx.L[0].L {
		mres[i] = x.String()
	}
	mdump := make([]string, len(mx.L[1].L))
	for i, x := range mx.L[1].L {
		mdump[i] = sortSymDump(x.String())
	}
	for i := range dump {
		dump[i] = sortSymDump(dump[i])
	}
	r.Validated++
	if strings.Join(res, " ") != strings.Join(mres, " ") || strings.Join(dump, " ") != strings.Join(mdump, " ") {
		r.Violate(Violation{Kind: "correspondence", Key: "symtab-model-differs",
			Detail: "the SymTab model and pkg/bytecode.SymbolTable disagree on a history",
			Input:  map[string]any{"history": caseSX}, Impl: map[string]any{"results": res, "tables": dump},
			Model: map[string]any{"results": mres, "tables": mdump}})
	}
}

// ---------- compiling and running on the real code ----------
type c17Compiled struct {
	ParseErr   string
	CompileErr string
	CompileErrClass string // sentinel class of the compile error, named as Compile.v's enc_cerr does
	Code       []byte
	NConsts    int
	GCount     int
	LCount     int
	bc         *bytecode.Bytecode
	comp       *bytecode.Compiler
	prog       *parser.Program
}

func c17Compile(src string) (out c17Compiled) {
	defer func() {
		if r := recover(); r != nil {
			out.CompileErr = fmt.Sprint("gopanic: ", r)
		}
	}()
	prog, err := parser.Parse(src, evaluator.BuiltinDecls())
	if err != nil {
		out.ParseErr = err.Error()
		return
	}
	out.prog = prog
	c := bytecode.NewCompiler()
	if err := c.Compile(prog); err != nil {
		out.CompileErr = err.Error()
		switch {
		case errors.Is(err, bytecode.ErrUndefinedVar):
			out.CompileErrClass = "undefined-var"
		case errors.Is(err, bytecode.ErrUnknownOperator):
			out.CompileErrClass = "unknown-operator"
		case errors.Is(err, bytecode.ErrUnsupportedExpression):
			out.CompileErrClass = "unsupported-expression"
		case errors.Is(err, bytecode.ErrUnsupportedNode):
			out.CompileErrClass = "unsupported-node"
		case errors.Is(err, bytecode.ErrOperandRange):
			out.CompileErrClass = "operand-range"
		case errors.Is(err, bytecode.ErrInternal):
			out.CompileErrClass = "range-type"
		default:
			out.CompileErrClass = "other"
		}
		return
	}
	bc := c.Bytecode()
	out.bc, out.comp = bc, c
	out.Code = []byte(bc.Instructions)
	out.NConsts, out.GCount, out.LCount = len(bc.Constants), bc.GlobalCount, bc.LocalCount
	return
}

type vmRunResult struct {
	Err     string `json:"err"`
	Panic   string `json:"panic"`
	SP      int    `json:"sp"`
	Timeout bool   `json:"timeout"`
}

// runVMInProcess runs the real VM under recover with a wall-clock limit. A
// timed-out goroutine cannot be killed; callers use the subprocess runner for
// bytecode that failed validation.
func runVMInProcess(bc *bytecode.Bytecode, limit time.Duration) (vmRunResult, *bytecode.VM) {
	vm := bytecode.NewVM(bc)
	done := make(chan vmRunResult, 1)
	go func() {
		var res vmRunResult
		defer func() {
			if r := recover(); r != nil {
				res.Panic = fmt.Sprint(r)
			}
			done <- res
		}()
		if err := vm.Run(); err != nil {
			res.Err = err.Error()
		}
		res.SP = vm.VerifSP()
	}()
	select {
	case res := <-done:
		return res, vm
	case <-time.After(limit):
		return vmRunResult{Timeout: true}, nil
	}
}

// runVMSubprocess compiles and runs src in a child process (killable).
func runVMSubprocess(src string, limit time.Duration) vmRunResult {
	f, err := os.CreateTemp("", "c17-*.evy")
	if err != nil {
		return vmRunResult{Err: "tempfile: " + err.Error()}
	}
	defer os.Remove(f.Name())
	f.WriteString(src)
	f.Close()
	outf := f.Name() + ".json"
	defer os.Remove(outf)
	ctx, cancel := context.WithTimeout(context.Background(), limit)
	defer cancel()
	cmd := exec.CommandContext(ctx, os.Args[0], "c17exec", "-replay", f.Name(), "-out", outf)
	cmd.Run()
	if ctx.Err() != nil {
		return vmRunResult{Timeout: true}
	}
	b, err := os.ReadFile(outf)
	if err != nil {
		return vmRunResult{Panic: "child died without result (host crash)"}
	}
	var wrap struct {
		Notes []string `json:"notes"`
	}
	var res vmRunResult
	if json.Unmarshal(b, &wrap) == nil && len(wrap.Notes) > 0 && json.Unmarshal([]byte(wrap.Notes[0]), &res) == nil {
		return res
	}
	return vmRunResult{Panic: "child result unreadable"}
}

// pseudo-property used by runVMSubprocess
func runC17Exec(cfg Config, r *Result) {
	b, err := os.ReadFile(cfg.Replay)
	if err != nil {
		r.Note(`{"err":"read"}`)
		return
	}
	c := c17Compile(string(b))
	if c.bc == nil {
		r.Note(`{"err":"compile"}`)
		return
	}
	res, _ := runVMInProcess(c.bc, time.Hour)
	j, _ := json.Marshal(res)
	r.Note("%s", string(j))
}

func bytesSX(code []byte) string {
	var b strings.Builder
	b.Grow(len(code)*4 + 2)
	b.WriteByte('(')
	for i, c := range code {
		if i > 0 {
			b.WriteByte(' ')
		}
		b.WriteString(fmt.Sprint(int(c)))
	}
	b.WriteByte(')')
	return b.String()
}

func c17HasJump(code []byte) bool {
	for i := 0; i < len(code); {
		def, err := bytecode.Lookup(bytecode.Opcode(code[i]))
		if err != nil {
			return false
		}
		switch bytecode.Opcode(code[i]) {
		case bytecode.OpJump, bytecode.OpJumpOnFalse, bytecode.OpStepRange, bytecode.OpIterRange:
			return true
		}
		i++
		for _, w := range def.OperandWidths {
			i += w
		}
	}
	return false
}

// c17Program is the per-program check. class: "" (supported subset), or a
// label of the stream the program comes from (used only for the Key).
func c17Program(src string, unsupported bool, stream string, model *Model, r *Result) {
	c := c17Compile(src)
	if c.ParseErr != "" {
		r.Dist("generator-parse-error")
		if r.Distribution["generator-parse-error"] <= 3 {
			r.Note("generated program rejected by the parser (%s): %q", c.ParseErr, src)
		}
		return
	}
	if strings.HasPrefix(c.CompileErr, "gopanic") {
		r.Count(src, true)
		r.Violate(Violation{Kind: "property", Key: "compiler-host-panic", Detail: c.CompileErr, Input: map[string]any{"program": src}})
		return
	}
	if c.CompileErr != "" {
		r.Count(src, false)
		r.Dist(stream + ":compile-error")
		return
	}
	// does the program contain nodes Compile has no translation for? (read off the AST)
	uns := map[string]int{}
	unsupportedNodes(c.prog, uns)
	unsupported = unsupported || len(uns) > 0
	big := len(c.Code) > 65535 || c.NConsts > 65535 || c.LCount > 65535 || c.GCount > 65535
	r.Count(src, c17HasJump(c.Code))
	r.Dist(stream + ":compiled")
	if big {
		r.Dist(fmt.Sprintf("%s:large(code=%dk consts=%dk locals=%d)", stream, len(c.Code)/1000, c.NConsts/1000, c.LCount))
	}
	in := map[string]any{"program": src}
	if len(src) > 4000 {
		in = map[string]any{"program_head": src[:2000], "program_len": len(src), "generator": stream}
	}
	ans, err := model.Ask(fmt.Sprintf("(wf %s %d %d %d)", bytesSX(c.Code), c.NConsts, c.GCount, c.LCount))
	if err != nil {
		r.Violate(Violation{Kind: "correspondence", Key: "model-crash", Detail: err.Error(), Input: in})
		return
	}
	r.Validated++
	wf := strings.HasPrefix(ans, "(true")
	if !wf {
		key := "wf-check-failed"
		switch {
		case big:
			key = "operand-truncation"
		case unsupported:
			key = "unsupported-node-unbalanced"
		}
		r.Violate(Violation{Kind: "property", Key: key,
			Detail: "the bytecode emitted by the real compiler is rejected by the proved-sound validator wf_check: " + ans,
			Input:  in, Impl: map[string]any{"code_len": len(c.Code), "consts": c.NConsts, "globals": c.GCount, "locals": c.LCount, "disasm_head": headLines(c.bc.Instructions.String(), 60)}})
	}
	// definite initialisation of local slots (coq/LocalInit.v): WF bounds the operand of a local access, not the order
	if wf && !big && (c.LCount > 200 || len(c.Code) > 20000) {
		r.Dist(stream + ":linit-skipped-large") // sets as lists: quadratic in LocalCount
	} else if wf && !big {
		if lm := c17Linit(); lm != nil {
			a2, err := lm.Ask(fmt.Sprintf("(linit %s %d %d %d)", bytesSX(c.Code), c.NConsts, c.GCount, c.LCount))
			switch {
			case err != nil:
				r.Violate(Violation{Kind: "correspondence", Key: "model-crash", Detail: "linit: " + err.Error(), Input: in})
			case strings.HasPrefix(a2, "(true"):
				r.Dist(stream + ":linit-ok")
			default:
				r.Violate(Violation{Kind: "property", Key: "local-read-before-write",
					Detail: "the bytecode emitted by the real compiler has a path on which an OpGetLocal reads a slot no OpSetLocal has written (rejected by the validator linit_check, proved sound: linit_safe): " + a2,
					Input:  in, Impl: map[string]any{"code_len": len(c.Code), "locals": c.LCount, "disasm_head": headLines(c.bc.Instructions.String(), 80)}})
			}
		}
	}
	// run the real VM
	var res vmRunResult
	if wf {
		res, _ = runVMInProcess(c.bc, 3*time.Second)
	} else {
		res = runVMSubprocess(src, 6*time.Second)
	}
	switch {
	case res.Timeout:
		r.Dist(stream + ":vm-timeout")
		if os.Getenv("C17_DEBUG") != "" {
			fmt.Fprintf(os.Stderr, "TIMEOUT wf=%v stream=%s\n%s\n%s\n", wf, stream, src, headLines(c.bc.Instructions.String(), 200))
			os.Exit(3)
		}
		if wf {
			r.Violate(Violation{Kind: "property", Key: "vm-nontermination", Detail: "the VM did not finish a terminating program within 3 s", Input: in})
		} else if big {
			r.Violate(Violation{Kind: "property", Key: "operand-truncation-vm-hang", Detail: "the VM does not terminate on bytecode whose jump operands were truncated to 16 bits (killed after 6 s)", Input: in})
		}
	case res.Panic != "":
		key := "vm-host-panic"
		switch {
		case big && !wf:
			key = "operand-truncation-vm-panic"
		case unsupported && !wf:
			key = "unsupported-node-vm-panic"
		case stream == "slots-known":
			// c17slots.go: the program references a variable that a loop variable of the same name and ANOTHER TYPE has
			// clobbered (known shape vm-loopvar-clobbers-outer): the VM then fails an unchecked type assertion
			key = "vm-loopvar-clobbers-outer-host-panic"
		}
		r.Violate(Violation{Kind: "property", Key: key, Detail: "the VM panicked on compiler output: " + res.Panic, Input: in})
	case res.Err != "":
		r.Dist(stream + ":vm-error")
	default:
		r.Dist(stream + ":vm-ok")
		if res.SP != c.LCount {
			key := "sp-not-localcount"
			if unsupported {
				key = "unsupported-node-unbalanced"
			} else if big && !wf {
				key = "operand-truncation"
			}
			r.Violate(Violation{Kind: "property", Key: key,
				Detail: fmt.Sprintf("sp after Run is %d, LocalCount is %d", res.SP, c.LCount), Input: in})
		}
	}
	if len(r.Samples) < 4 && c17HasJump(c.Code) && len(src) < 1500 {
		r.Sample(map[string]any{"program": src, "code_len": len(c.Code), "wf_check": wf, "sp": res.SP, "local_count": c.LCount})
	}
}

func headLines(s string, n int) string {
	l := strings.SplitN(s, "\n", n+1)
	if len(l) > n {
		l = l[:n]
	}
	return strings.Join(l, "\n")
}

// ---------- large programs ----------
func c17Large(kind string, rng *rand.Rand) string {
	var b strings.Builder
	switch kind {
	case "long-straight": // > 65535 bytes of straight-line code, few constants reused? no: every literal is a new constant
		b.WriteString("x := 0\n")
		for i := 0; i < 6800+rng.Intn(400); i++ {
			fmt.Fprintf(&b, "x = x + %d\n", i%97)
		}
	case "long-if": // a conditional whose end lies beyond 65535
		b.WriteString("x := 0\nif x == 0\n")
		for i := 0; i < 6800+rng.Intn(400); i++ {
			fmt.Fprintf(&b, "    x = x + %d\n", i%97)
		}
		b.WriteString("end\n")
	case "late-loop": // loops placed after 65535 bytes of code: backward jumps are truncated
		b.WriteString("x := 0\n")
		for i := 0; i < 6700+rng.Intn(300); i++ {
			fmt.Fprintf(&b, "x = x + %d\n", i%97)
		}
		b.WriteString("c := 0\nwhile c < 3\n    c = c + 1\n    x = x + c\nend\nfor i := range 3\n    x = x + i\nend\n")
	case "many-constants": // > 65535 constants: 34 array literals of 2000 elements
		b.WriteString("a := [0]\n")
		for k := 0; k < 34; k++ {
			b.WriteString("a = [")
			for i := 0; i < 2000; i++ {
				if i > 0 {
					b.WriteByte(' ')
				}
				fmt.Fprint(&b, (k*2000+i)%1000)
			}
			b.WriteString("]\n")
		}
		b.WriteString("y := a[0]\ny = y\n")
	case "many-locals": // more locals than the VM stack has slots
		b.WriteString("x := 0\nif x == 0\n")
		n := 2050 + rng.Intn(40)
		for i := 0; i < n; i++ {
			fmt.Fprintf(&b, "    l%d := %d\n", i, i%10)
		}
		for i := 0; i < n; i++ {
			fmt.Fprintf(&b, "    x = x + l%d\n", i)
		}
		b.WriteString("end\n")
	case "deep-nesting": // nested blocks each with locals
		b.WriteString("x := 0\n")
		d := 40 + rng.Intn(20)
		for i := 0; i < d; i++ {
			ind := strings.Repeat(" ", i)
			fmt.Fprintf(&b, "%sif x >= 0\n%s l%d := %d\n%s x = x + l%d\n", ind, ind, i, i, ind, i)
		}
		for i := d - 1; i >= 0; i-- {
			fmt.Fprintf(&b, "%send\n", strings.Repeat(" ", i))
		}
	case "wide-array": // literal wider than the VM stack
		b.WriteString("a := [")
		for i := 0; i < 2100; i++ {
			fmt.Fprintf(&b, "%d ", i%7)
		}
		b.WriteString("]\na = a\n")
	}
	return b.String()
}

// the model of coq/LocalInit.v, started on first use (one per process)
var c17LinitModel *Model
var c17LinitTried bool

func c17Linit() *Model {
	if !c17LinitTried {
		c17LinitTried = true
		if m, err := StartModelBig("linit"); err == nil {
			c17LinitModel = m
		}
	}
	return c17LinitModel
}

func runC17(cfg Config, r *Result) {
	r.Rule = "two kinds of cases. (1) symbol-table histories: up to 30 random Push/Pop/Define/Resolve operations over 5 names (Pop also on the global table) run on pkg/bytecode.SymbolTable and on the extracted SymTab model: every returned symbol and the final chain of tables (index, nestedMaxIndex, symbols) must agree, and on the implementation no two live symbols may share (scope,index) and every local index must be < the root's nestedMaxIndex after all pops; non-trivial = at least one Push, two Defines, four operations. (2) programs: generated evy programs (declarations, assignment, arithmetic, strings, arrays, maps, index, slice, if/else-if/else, while, break, for over ranges/arrays/strings/maps, nested; a stream with constructs outside the compiler's subset; large programs beyond every operand width) compiled by the REAL compiler; the emitted bytecode is validated by the extracted wf_check (proved sound: wf_check_sound) and by the extracted linit_check (definite initialisation of local slots: no path reads a local slot before an OpSetLocal wrote it; coq/LocalInit.v) and run on the REAL VM under recover and a time limit; sp after Run must equal LocalCount; stream slots: programs over nested if / else / else-if / while / for blocks (with and without declarations of their own) whose `:=` variables and loop variables deliberately take the names of visible or dead variables, printed a second time with one name per variable: the real VM must record the same trace of variable values for both (two live variables sharing a slot interfere), the real evaluator too (the renaming is an alpha-renaming); non-trivial = the emitted code contains a jump or range instruction; distinct = distinct history / program text"
	if cfg.Replay != "" {
		c17Replay(cfg, r)
		return
	}
	sym, err := StartModel("symtab")
	if err != nil {
		r.Violate(Violation{Kind: "correspondence", Key: "model-start", Detail: err.Error()})
		return
	}
	defer sym.Close()
	// corpus: the shapes that matter for slot allocation
	for _, h := range c17SymCorpus {
		c17SymCase(h, sym, r)
	}
	for i, n := 0, cfg.N(1500, 40000); i < n; i++ {
		c17SymCase(genSymHistory(cfg.Rng, 1+cfg.Rng.Intn(30)), sym, r)
	}

	model, err := StartModelBig("bytecode")
	if err != nil {
		r.Violate(Violation{Kind: "correspondence", Key: "model-start", Detail: err.Error()})
		return
	}
	defer model.Close()
	for _, src := range c17Corpus {
		c17Program(src, false, "corpus", model, r)
	}
	for i, n := 0, cfg.N(700, 20000); i < n; i++ {
		o := genOpts{MaxStmts: 3 + cfg.Rng.Intn(10), MaxDepth: 1 + cfg.Rng.Intn(4), ExprDepth: 1 + cfg.Rng.Intn(3),
			Classes: map[string]bool{"runtime-errors": cfg.Rng.Intn(5) == 0, "div-zero": cfg.Rng.Intn(5) == 0, "zero-step": cfg.Rng.Intn(8) == 0,
				"map-insert": cfg.Rng.Intn(3) == 0, "frac-index-write": cfg.Rng.Intn(6) == 0, "shallow-rep": cfg.Rng.Intn(6) == 0, "byte-strings": cfg.Rng.Intn(4) == 0}}
		src, feat := genProgram(cfg.Rng, o)
		for _, k := range sortedKeys(feat) {
			r.Distribution["construct:"+k] += feat[k]
		}
		c17Program(src, false, "supported", model, r)
	}
	for i, n := 0, cfg.N(120, 3000); i < n; i++ {
		o := genOpts{MaxStmts: 3 + cfg.Rng.Intn(8), MaxDepth: 1 + cfg.Rng.Intn(3), ExprDepth: 1 + cfg.Rng.Intn(2), Unsupported: true, Classes: map[string]bool{}}
		src, feat := genProgram(cfg.Rng, o)
		for _, k := range sortedKeys(feat) {
			r.Distribution["construct:"+k] += feat[k]
		}
		c17Program(src, true, "unsupported", model, r)
	}
	// slot sharing of live variables on compiled programs (c17slots.go)
	c17Slots(cfg, model, r)
	// array repetition with huge counts (fixed regression stream; the evaluator guards both cases, see f173496 / 6185acc)
	for _, rc := range c17RepeatCases {
		c17RepeatCase(rc.src, rc.key, rc.what, r)
	}
	kinds := []string{"long-straight", "long-if", "late-loop", "many-constants", "many-locals", "deep-nesting", "wide-array"}
	rounds := cfg.N(1, 4)
	for k := 0; k < rounds; k++ {
		for _, kind := range kinds {
			c17Program(c17Large(kind, cfg.Rng), false, "large:"+kind, model, r)
		}
	}
}

// OpArrayRepeat with counts no array can have: the VM must return ErrBadRepetition (as the evaluator does), not
// panic in makeslice / exhaust memory, and must not loop count times over an empty array.
var c17RepeatCases = []struct{ src, key, what string }{
	{"a := [1 2] * 1000000000000000000\na = a\n", "vm-repeat-huge-count-host-panic", "len*count exceeds every slice capacity"},
	{"a := [1 2 3] * 4611686018427387904\na = a\n", "vm-repeat-huge-count-host-panic", "len*count overflows int"},
	{"e := [1][:0]\nb := e * 9007199254740992\nb = b\n", "vm-repeat-empty-huge-count-hangs", "the empty array repeated 2^53 times"},
	{"a := [1 2] * 3\na = a\n", "", "control: a small count"},
	{"e := [1][:0]\nb := e * 4\nb = b\n", "", "control: the empty array, small count"},
}

func c17RepeatCase(src, key, what string, r *Result) {
	in := map[string]any{"program": src, "stream": "repeat-count"}
	c := c17Compile(src)
	r.Count(src, true)
	if c.ParseErr != "" || c.CompileErr != "" || c.bc == nil {
		r.Violate(Violation{Kind: "correspondence", Key: "repeat-count-case-rejected", Detail: c.ParseErr + c.CompileErr, Input: in})
		return
	}
	res := runVMSubprocess(src, 4*time.Second)
	ev := RunEvy(src, RunOpts{YieldBudget: 2_000_000})
	switch {
	case res.Timeout:
		r.Dist("repeat-count:vm-timeout")
		k := key
		if k == "" {
			k = "vm-nontermination"
		}
		r.Violate(Violation{Kind: "property", Key: k, Detail: "OpArrayRepeat (" + what + "): the VM did not return within 4 s (killed); the evaluator: " + ev.Class + " " + ev.ErrText,
			Input: in, Impl: map[string]any{"vm": "timeout", "evaluator": ev.Class}})
	case res.Panic != "":
		r.Dist("repeat-count:vm-host-panic")
		k := key
		if k == "" {
			k = "vm-host-panic"
		}
		r.Violate(Violation{Kind: "property", Key: k, Detail: "OpArrayRepeat (" + what + "): the VM crashed the host: " + res.Panic + "; the evaluator: " + ev.Class + " " + ev.ErrText,
			Input: in, Impl: map[string]any{"vm": res.Panic, "evaluator": ev.Class}})
	case res.Err != "":
		r.Dist("repeat-count:vm-error")
		r.Validated++
		if key == "" || ev.Class == "ok" {
			r.Violate(Violation{Kind: "property", Key: "vm-repeat-count-error-mismatch",
				Detail: "OpArrayRepeat (" + what + "): the VM returned " + res.Err + ", the evaluator " + ev.Class, Input: in})
		}
	default:
		r.Dist("repeat-count:vm-ok")
		r.Validated++
		if ev.Class != "ok" {
			r.Violate(Violation{Kind: "property", Key: "vm-repeat-count-error-mismatch",
				Detail: "OpArrayRepeat (" + what + "): the VM finished, the evaluator " + ev.Class + " " + ev.ErrText, Input: in})
		}
	}
}

func c17Replay(cfg Config, r *Result) {
	b, err := os.ReadFile(cfg.Replay)
	if err != nil {
		r.Note("cannot read replay: %v", err)
		return
	}
	var rep struct {
		Input map[string]any `json:"input"`
	}
	if err := json.Unmarshal(b, &rep); err != nil {
		r.Note("cannot parse replay: %v", err)
		return
	}
	if h, ok := rep.Input["history"].(string); ok {
		sym, err := StartModel("symtab")
		if err != nil {
			return
		}
		defer sym.Close()
		x, err := ParseSX(h)
		if err != nil {
			return
		}
		var ops []symOp
		for _, o := range x.L {
			op := symOp{Kind: o.L[0].S}
			if len(o.L) > 1 {
				op.Name = o.L[1].S
			}
			ops = append(ops, op)
		}
		c17SymCase(ops, sym, r)
		return
	}
	model, err := StartModelBig("bytecode")
	if err != nil {
		return
	}
	defer model.Close()
	if src, ok := rep.Input["program"].(string); ok {
		if st, _ := rep.Input["stream"].(string); st == "repeat-count" {
			for _, rc := range c17RepeatCases {
				if rc.src == src {
					c17RepeatCase(rc.src, rc.key, rc.what, r)
					return
				}
			}
			c17RepeatCase(src, "", "replay", r)
			return
		}
		c17Program(src, false, "replay", model, r)
	} else if g, ok := rep.Input["generator"].(string); ok {
		c17Program(c17Large(strings.TrimPrefix(g, "large:"), rand.New(rand.NewSource(cfg.Seed))), false, g, model, r)
	}
}

var c17SymCorpus = [][]symOp{
	// shadowing in nested blocks, then reuse of the freed slot
	{{"define", "a"}, {"push", ""}, {"define", "a"}, {"define", "b"}, {"push", ""}, {"define", "a"}, {"resolve", "b"}, {"pop", ""}, {"define", "c"}, {"resolve", "a"}, {"pop", ""}, {"resolve", "a"}},
	// sibling blocks
	{{"push", ""}, {"define", "x"}, {"pop", ""}, {"push", ""}, {"define", "y"}, {"define", "x"}, {"pop", ""}, {"pop", ""}},
	// define after a nested block closed (parent continues after the child's slots)
	{{"push", ""}, {"define", "a"}, {"push", ""}, {"define", "b"}, {"define", "c"}, {"pop", ""}, {"define", "x"}, {"push", ""}, {"define", "y"}, {"pop", ""}, {"pop", ""}},
}

var c17Corpus = []string{
	// shadowing declarations whose initialiser reads the shadowed variable: the initialiser belongs to the scope
	// before the declaration (with an earlier sibling block that used the slot; without; string slice; array in a loop)
	"x := 10\nr := 0\nif true\n    t := 5\n    r = t\nend\nif true\n    x := x + 1\n    r = x\nend\n",
	"x := 10\nr := 0\nif true\n    x := x + 1\n    r = x\nend\nr = r + x\n",
	"s := \"abc\"\nr := \"\"\nif true\n    s := s[1:]\n    r = s\nend\nr = r + s\n",
	"a := [1 2 3]\nn := 0\nfor range 1\n    if true\n        u := 1\n        n = n + u\n        if true\n            a := a + [4]\n            n = n + a[3]\n        end\n    end\nend\nn = n + a[0]\n",
	"x := 1\nif x > 0\n    y := 2\n    x = x + y\n    if true\n        z := 3\n        x = z\n    end\nend\nwhile true\n    w := 5\n    x = x + w\n    if x > 10\n        break\n    end\nend\nfor i := range 3\n    x = x + i\nend\n",
	"x := 0\nfor i := range 2\n    for j := range 3\n        if j == 1\n            break\n        end\n        x = x + i + j\n    end\n    for k := range \"ab\"\n        if k == \"b\"\n            break\n        end\n    end\nend\n",
	"m := {a:1 b:2}\ns := \"\"\nfor k := range m\n    s = s + k\n    for range 2\n        s = s + \"-\"\n    end\nend\na := [1 2 3]\na[0] = a[1] + m[\"a\"]\nt := s[1:]\nt = t + s[:1] + s[0]\n",
}

func init() {
	register("C17", runC17)
	register("c17exec", runC17Exec)
}
