package main

// C05 (parser-model part), harness id "C05rules": every rule-breaking mutant of C05
// (c05Gen.mutants over the seed programs, the corpus and generated programs, and
// c05ReturnTreeMutants) and every base program goes through parser.Parse AND the extracted
// Coq parser model (coq/Parser.v, theorems in coq/Props/C05_parse.v); compared as in C03parse:
// accept / reject and the complete ordered list of error positions (typing errors of the real
// type checker are fed to the model's oracle).  Counted per rule.

import "fmt"

func runC05rules(cfg Config, r *Result) {
	r.Rule = "base programs (C05 seeds, corpus, typed generator, return-path trees, scope trees) and their rule-breaking mutants (one edit per rule and position: undeclared / unused variable, redeclaration, type mismatch, argument count, unknown function, missing return, unreachable code, break outside a loop, value returned from a handler / procedure, stray text after a statement / after end); each through parser.Parse and through the extracted parser model; compared: accept/reject and the ordered error positions. non-trivial: every mutant; distinct = distinct text"
	model, err := StartModel("parser")
	if err != nil {
		r.Violate(Violation{Kind: "correspondence", Key: "model-start", Detail: err.Error()})
		return
	}
	defer model.Close()
	run := func(src, stream string) string {
		out := c03pCheck(src, stream, model, r)
		r.Count(src, true)
		r.Dist("cc:" + stream + ":" + out)
		return out
	}
	g := &c05Gen{cfg: cfg, all: cfg.Tier == "thorough", per: 2}
	var progs []string
	progs = append(progs, c05Seeds...)
	corpus := CorpusPrograms()
	for i, s := range corpus {
		if cfg.Tier == "thorough" || i%3 == int(cfg.Seed%3) {
			progs = append(progs, s)
		}
	}
	for i := 0; i < cfg.N(120, 300); i++ {
		s, _, _ := GenProgram(cfg.Rng, fmtGenOpts[i%len(fmtGenOpts)])
		progs = append(progs, s)
	}
	rtValid, rtMut := c05ReturnTreeMutants(cfg, cfg.N(120, 600))
	for _, p := range rtValid {
		run(p, "base:return-tree")
	}
	for _, m := range rtMut {
		if out := run(m.Src, "rule:"+m.Rule); out == "both-accept" {
			r.Dist("mutant-accepted-by-both:" + m.Rule)
		}
	}
	// scope trees (harness/c05scope.go); the extracted model needs ~30 ms for one of these, hence few of them here
	// (C05 proper runs many more against its own oracle)
	scValid, scMut := c05ScopeMutants(cfg, cfg.N(30, 100))
	for _, p := range scValid {
		run(p, "base:scope-tree")
	}
	for _, m := range scMut {
		if out := run(m.Src, "rule:"+m.Rule); out == "both-accept" {
			r.Dist("mutant-accepted-by-both:" + m.Rule)
		}
	}
	budget := r.Evaluations + cfg.N(9000, 40000) // relative: this runs after C05's own oracles in the same Result
	for _, p := range progs {
		if run(p, "base") != "both-accept" {
			continue
		}
		for _, m := range g.mutants(p) {
			if r.Evaluations >= budget {
				break
			}
			if out := run(m.Src, "rule:"+m.Rule); out == "both-accept" {
				// not this harness's verdict (C05 proper reports a surviving mutant); recorded
				r.Dist("mutant-accepted-by-both:" + m.Rule)
			}
		}
	}
	if len(r.Samples) == 0 {
		r.Sample(map[string]any{"note": fmt.Sprintf("%d programs and mutants compared", r.Evaluations)})
	}
}

func init() { register("C05rules", runC05rules) }
