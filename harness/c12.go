package main

import (
	"fmt"
	"math/rand"
	"strings"
)

// C12: histories of map operations, rendered as evy programs (through up to
// three aliases and a helper procedure), run on the real evaluator and on the
// extracted Omap model.

type mop struct {
	Kind string // set del get has len print eq loop
	Key  string // "" = loop variable (KVar)
	Val  int64
	Lit  [][2]any // for eq: pairs
	Body []mop
	// loop: written without a loop variable (`for range m`); the body then has no operation on the loop variable.
	// The model is asked the same question (it visits the keys one by one); the program prints "@" per iteration.
	NoVar bool
}

var c12Keys = []string{"a", "b", "c", "k1"}

// c12Shadow is a plain Go dictionary followed by the generator only to build interesting
// equality operands (same / one key fewer / one key more / one value changed); it is never used as an oracle.
type c12Shadow struct {
	keys []string
	vals map[string]int64
}

func (s *c12Shadow) set(k string, v int64) {
	if _, ok := s.vals[k]; !ok {
		s.keys = append(s.keys, k)
	}
	s.vals[k] = v
}

func (s *c12Shadow) del(k string) {
	if _, ok := s.vals[k]; !ok {
		return
	}
	delete(s.vals, k)
	for i, x := range s.keys {
		if x == k {
			s.keys = append(s.keys[:i:i], s.keys[i+1:]...)
			break
		}
	}
}

func (s *c12Shadow) reset(lit [][2]any) {
	s.keys, s.vals = nil, map[string]int64{}
	for _, kv := range lit {
		s.set(kv[0].(string), kv[1].(int64))
	}
}

func (s *c12Shadow) eqLit(rng *rand.Rand) [][2]any {
	lit := [][2]any{}
	perm := rng.Perm(len(s.keys))
	for _, i := range perm {
		lit = append(lit, [2]any{s.keys[i], s.vals[s.keys[i]]})
	}
	switch rng.Intn(5) {
	case 0: // one key fewer
		if len(lit) > 1 {
			lit = lit[1:]
		}
	case 1: // one key more
		for _, k := range c12Keys {
			if _, ok := s.vals[k]; !ok {
				lit = append(lit, [2]any{k, int64(rng.Intn(5))})
				break
			}
		}
	case 2: // one value changed
		if len(lit) > 0 {
			lit[0] = [2]any{lit[0][0], lit[0][1].(int64) + 1}
		}
	}
	if len(lit) == 0 {
		lit = [][2]any{{"a", int64(1)}}
	}
	return lit
}

func genC12Ops(rng *rand.Rand, n int, depth int, inLoop bool, sh *c12Shadow, initial [][2]any, varKeys ...bool) []mop {
	useVar := inLoop && (len(varKeys) == 0 || varKeys[0])
	ops := make([]mop, 0, n)
	for i := 0; i < n; i++ {
		key := c12Keys[rng.Intn(len(c12Keys))]
		if useVar && rng.Intn(3) == 0 {
			key = ""
		}
		switch k := rng.Intn(20); {
		case k < 5:
			v := int64(rng.Intn(19) - 9)
			ops = append(ops, mop{Kind: "set", Key: key, Val: v})
			if key != "" {
				sh.set(key, v)
			}
		case k < 8:
			ops = append(ops, mop{Kind: "del", Key: key})
			if key != "" {
				sh.del(key)
			}
		case k < 9:
			if !inLoop {
				ops = append(ops, mop{Kind: "reset", Lit: initial})
				sh.reset(initial)
			} else {
				ops = append(ops, mop{Kind: "len"})
			}
		case k < 11:
			ops = append(ops, mop{Kind: "get", Key: key})
		case k < 13:
			ops = append(ops, mop{Kind: "has", Key: key})
		case k < 14:
			ops = append(ops, mop{Kind: "len"})
		case k < 16:
			ops = append(ops, mop{Kind: "print"})
		case k < 17:
			if rng.Intn(3) == 0 {
				ops = append(ops, mop{Kind: "eq", Lit: genC12Lit(rng, 1+rng.Intn(3))})
			} else {
				ops = append(ops, mop{Kind: "eq", Lit: sh.eqLit(rng)})
			}
		default:
			if depth < 2 {
				novar := rng.Intn(3) == 0
				ops = append(ops, mop{Kind: "loop", NoVar: novar, Body: genC12Ops(rng, rng.Intn(4), depth+1, true, sh, initial, !novar)})
			} else {
				ops = append(ops, mop{Kind: "print"})
			}
		}
	}
	return ops
}

func genC12Lit(rng *rand.Rand, n int) [][2]any {
	perm := rng.Perm(len(c12Keys))
	if n > len(perm) {
		n = len(perm)
	}
	lit := make([][2]any, 0, n)
	for _, i := range perm[:n] {
		lit = append(lit, [2]any{c12Keys[i], int64(rng.Intn(7) - 3)})
	}
	return lit
}

func c12OpsSX(ops []mop) SX {
	l := make([]SX, 0, len(ops))
	for _, o := range ops {
		k := Str(o.Key)
		if o.Key == "" {
			k = Sym("var")
		}
		switch o.Kind {
		case "set":
			l = append(l, Lst(Sym("set"), k, Int(o.Val)))
		case "del", "get", "has":
			l = append(l, Lst(Sym(o.Kind), k))
		case "len", "print":
			l = append(l, Lst(Sym(o.Kind)))
		case "eq":
			l = append(l, Lst(Sym("eq"), c12LitSX(o.Lit)))
		case "reset":
			l = append(l, Lst(Sym("reset"), c12LitSX(o.Lit)))
		case "loop":
			l = append(l, Lst(Sym("loop"), c12OpsSX(o.Body)))
		}
	}
	return LstOf(l)
}

func c12LitSX(lit [][2]any) SX {
	l := make([]SX, 0, len(lit))
	for _, kv := range lit {
		l = append(l, Lst(Str(kv[0].(string)), Int(kv[1].(int64))))
	}
	return LstOf(l)
}

func c12LitEvy(lit [][2]any) string {
	parts := []string{}
	for _, kv := range lit {
		parts = append(parts, fmt.Sprintf("%s:%d", kv[0], kv[1]))
	}
	return "{" + strings.Join(parts, " ") + "}"
}

// render turns a history into an evy program. style picks, per operation, one
// of the aliases and one of the equivalent syntaxes; it must not matter.
func c12Render(lit [][2]any, ops []mop, rng *rand.Rand) string {
	var b strings.Builder
	b.WriteString("func setk mm:{}num k:string v:num\n    mm[k] = v\nend\n")
	b.WriteString("func delk mm:{}num k:string\n    del mm k\nend\n")
	b.WriteString("func getk:num mm:{}num k:string\n    return mm[k]\nend\n")
	b.WriteString("func fresh:{}num\n    return " + c12LitEvy(lit) + "\nend\n")
	b.WriteString("m:{}num\n")
	b.WriteString("m = (fresh)\n")
	b.WriteString("m2 := m\nm3 := m2\n")
	b.WriteString("w:any\nw = m\nm4 := w.({}num)\n")
	b.WriteString("print (len m) (len m2) (len m3) (len m4)\n")
	aliases := []string{"m", "m2", "m3", "m4"}
	var emit func(ops []mop, indent string, loopVar string, depth int)
	emit = func(ops []mop, indent string, loopVar string, depth int) {
		for _, o := range ops {
			a := aliases[rng.Intn(len(aliases))]
			keyExpr := fmt.Sprintf("%q", o.Key)
			isVar := o.Key == ""
			if isVar {
				keyExpr = loopVar
			}
			switch o.Kind {
			case "set":
				switch s := rng.Intn(3); {
				case s == 0 && !isVar:
					fmt.Fprintf(&b, "%s%s.%s = %d\n", indent, a, o.Key, o.Val)
				case s == 1:
					fmt.Fprintf(&b, "%ssetk %s %s %d\n", indent, a, keyExpr, o.Val)
				default:
					fmt.Fprintf(&b, "%s%s[%s] = %d\n", indent, a, keyExpr, o.Val)
				}
			case "del":
				if rng.Intn(2) == 0 {
					fmt.Fprintf(&b, "%sdel %s %s\n", indent, a, keyExpr)
				} else {
					fmt.Fprintf(&b, "%sdelk %s %s\n", indent, a, keyExpr)
				}
			case "get":
				switch s := rng.Intn(3); {
				case s == 0 && !isVar:
					fmt.Fprintf(&b, "%sprint %s.%s\n", indent, a, o.Key)
				case s == 1:
					fmt.Fprintf(&b, "%sprint (getk %s %s)\n", indent, a, keyExpr)
				default:
					fmt.Fprintf(&b, "%sprint %s[%s]\n", indent, a, keyExpr)
				}
			case "has":
				fmt.Fprintf(&b, "%sprint (has %s %s)\n", indent, a, keyExpr)
			case "len":
				fmt.Fprintf(&b, "%sprint (len %s)\n", indent, a)
			case "print":
				fmt.Fprintf(&b, "%sprint %s\n", indent, a)
			case "eq":
				if rng.Intn(2) == 0 {
					fmt.Fprintf(&b, "%sprint (%s == %s)\n", indent, a, c12LitEvy(o.Lit))
				} else {
					fmt.Fprintf(&b, "%sprint (%s == %s)\n", indent, c12LitEvy(o.Lit), a)
				}
			case "reset":
				fmt.Fprintf(&b, "%sm = (fresh)\n%sm2 = m\n%sm3 = m2\n%sw = m\n%sm4 = w.({}num)\n", indent, indent, indent, indent, indent)
			case "loop":
				v := fmt.Sprintf("k%d", depth)
				if o.NoVar {
					fmt.Fprintf(&b, "%sfor range %s\n%s    print \"@\"\n", indent, a, indent)
				} else {
					fmt.Fprintf(&b, "%sfor %s := range %s\n%s    print %s\n", indent, v, a, indent, v)
				}
				emit(o.Body, indent+"    ", v, depth+1)
				fmt.Fprintf(&b, "%send\n", indent)
			}
		}
	}
	emit(ops, "", "", 0)
	return b.String()
}

// c12NoVarSig: which loops of the history are written without a loop variable (part of the identity of a case)
func c12NoVarSig(ops []mop) string {
	var b strings.Builder
	var walk func(ops []mop)
	walk = func(ops []mop) {
		for _, o := range ops {
			if o.Kind == "loop" {
				if o.NoVar {
					b.WriteByte('n')
				} else {
					b.WriteByte('v')
				}
				walk(o.Body)
			}
		}
	}
	walk(ops)
	return b.String()
}

// c12LoopHistory: histories centred on loops that change the map they iterate: a few operations, then a loop
// (with or without loop variable) whose body deletes / inserts / overwrites keys that were visited, are being
// visited or are still to come (through any alias or the helper procedures), nested loops over the same map,
// then the map is observed. The number of "@" / key lines IS the number of iterations.
func c12LoopHistory(rng *rand.Rand, sh *c12Shadow, initial [][2]any) []mop {
	var body func(depth int, novar bool) []mop
	body = func(depth int, novar bool) []mop {
		var ops []mop
		for i, n := 0, 1+rng.Intn(4); i < n; i++ {
			key := c12Keys[rng.Intn(len(c12Keys))]
			if !novar && rng.Intn(3) == 0 {
				key = ""
			}
			switch k := rng.Intn(12); {
			case k < 5:
				ops = append(ops, mop{Kind: "del", Key: key})
			case k < 7:
				ops = append(ops, mop{Kind: "set", Key: key, Val: int64(rng.Intn(9))})
			case k < 8:
				ops = append(ops, mop{Kind: "has", Key: key})
			case k < 9:
				ops = append(ops, mop{Kind: "len"})
			case k < 10:
				ops = append(ops, mop{Kind: "print"})
			default:
				if depth < 2 {
					nv := rng.Intn(2) == 0
					ops = append(ops, mop{Kind: "loop", NoVar: nv, Body: body(depth+1, nv)})
				} else {
					ops = append(ops, mop{Kind: "len"})
				}
			}
		}
		return ops
	}
	ops := genC12Ops(rng, rng.Intn(3), 2, false, sh, initial)
	for i, n := 0, 1+rng.Intn(2); i < n; i++ {
		nv := rng.Intn(3) > 0
		ops = append(ops, mop{Kind: "loop", NoVar: nv, Body: body(1, nv)}, mop{Kind: "print"}, mop{Kind: "len"})
		if rng.Intn(3) == 0 {
			ops = append(ops, mop{Kind: "set", Key: c12Keys[rng.Intn(len(c12Keys))], Val: int64(rng.Intn(9))})
		}
	}
	return ops
}

func c12Nontrivial(ops []mop) bool {
	mut, obsAfter, n := false, false, 0
	var walk func(ops []mop)
	walk = func(ops []mop) {
		for _, o := range ops {
			n++
			switch o.Kind {
			case "set", "del", "reset":
				mut = true
			case "loop":
				if mut {
					obsAfter = true
				}
				walk(o.Body)
			default:
				if mut {
					obsAfter = true
				}
			}
		}
	}
	walk(ops)
	return n >= 3 && mut && obsAfter
}

func c12Check(lit [][2]any, ops []mop, renderSeed int64, model *Model, r *Result) {
	src := c12Render(lit, ops, rand.New(rand.NewSource(renderSeed)))
	caseSX := Lst(c12LitSX(lit), c12OpsSX(ops))
	r.Count(caseSX.String()+c12NoVarSig(ops), c12Nontrivial(ops))
	out := RunEvy(src, RunOpts{})
	ans, err := model.Ask(caseSX.String())
	if err != nil {
		r.Violate(Violation{Kind: "correspondence", Key: "model-crash", Detail: err.Error(), Input: src})
		return
	}
	msx, err := ParseSX(ans)
	if err != nil || msx.Kind != "lst" || len(msx.L) < 1 {
		r.Violate(Violation{Kind: "correspondence", Key: "model-output", Detail: ans, Input: src})
		return
	}
	mstat := msx.L[0].S
	mouts := []string{}
	for _, x := range msx.L[1:] {
		mouts = append(mouts, x.S)
	}
	// implementation observables: prints after the preamble line, status
	iouts := []string{}
	for _, p := range out.Prints {
		iouts = append(iouts, strings.TrimSuffix(p, "\n"))
	}
	if len(iouts) > 0 {
		iouts = iouts[1:] // preamble "true"
	}
	istat := map[string]string{"ok": "ok", "panic:MapKey": "mapkey"}[out.Class]
	if istat == "" {
		istat = out.Class
	}
	r.Dist("status:" + istat)
	r.Validated++
	// an iteration of a loop without loop variable prints "@" where the model prints the key it visits
	cmpouts := append([]string(nil), mouts...)
	for i, o := range iouts {
		if o == "@" && i < len(cmpouts) {
			for _, k := range c12Keys {
				if cmpouts[i] == k {
					cmpouts[i] = "@"
				}
			}
		}
	}
	if istat != mstat || strings.Join(iouts, "\x1e") != strings.Join(cmpouts, "\x1e") {
		key := "history-output-differs"
		if istat != mstat {
			key = "history-status-differs:" + istat + "-vs-" + mstat
		}
		r.Violate(Violation{Kind: "property", Key: key,
			Detail: "the implementation does not print what the insertion-ordered dictionary (to which the model is proved equal) prints",
			Input:  map[string]any{"program": src, "case": caseSX.String(), "render_seed": renderSeed},
			Impl:   map[string]any{"status": istat, "outs": iouts, "err": out.ErrText + out.ParseErr + out.GoPanic},
			Model:  map[string]any{"status": mstat, "outs": mouts}})
	}
	if len(r.Samples) < 3 {
		r.Sample(map[string]any{"program": src, "outs": iouts, "status": istat})
	}
}

func runC12(cfg Config, r *Result) {
	model, err := StartModel("omap")
	if err != nil {
		r.Violate(Violation{Kind: "correspondence", Key: "model-start", Detail: err.Error()})
		return
	}
	defer model.Close()
	r.Rule = "random histories over keys {a,b,c,k1}: literal of 0-4 pairs, then up to L operations (set/del/get/has/len/print/==literal/nested loops over the same map with body operations, key operand = literal or loop variable; loops written with a loop variable or as `for range m` without one, the iteration count observed by one printed line per iteration; loop-centred histories whose bodies delete / insert visited, current and coming keys), rendered as an evy program through 4 aliases (direct, :=, via any + type assertion, via procedure parameters) and alternative syntaxes; non-trivial = at least 3 operations with a mutation that is later observed; distinct = distinct (literal, operation list)"
	// corpus first
	for _, c := range c12Corpus {
		c12Check(c.lit, c.ops, 1, model, r)
	}
	n := cfg.N(1500, 40000)
	maxLen := cfg.N(12, 40)
	for i := 0; i < n; i++ {
		lit := genC12Lit(cfg.Rng, cfg.Rng.Intn(5))
		sh := &c12Shadow{}
		sh.reset(lit)
		ops := genC12Ops(cfg.Rng, 1+cfg.Rng.Intn(maxLen), 0, false, sh, lit)
		c12Check(lit, ops, cfg.Rng.Int63(), model, r)
	}
	for i := 0; i < cfg.N(400, 10000); i++ {
		lit := genC12Lit(cfg.Rng, 1+cfg.Rng.Intn(4))
		sh := &c12Shadow{}
		sh.reset(lit)
		c12Check(lit, c12LoopHistory(cfg.Rng, sh, lit), cfg.Rng.Int63(), model, r)
	}
	// deep equality of maps holding shared / copied / different composite values, through the evaluator model
	sem := startSem(r)
	if sem == nil {
		return
	}
	defer sem.Close()
	r.Rule += "; deep-equality programs (maps of arrays / maps of maps with shared, copied and different inner cells, all == / != pairs in both directions, before and after an update through an alias) compared with the evaluator model"
	for i := 0; i < cfg.N(250, 5000); i++ {
		semCase(sem, r, c12DeepEq(cfg.Rng), SemOpts{StopAt: -1, YieldBudget: 50000}, true, "deepeq:")
	}
	r.Rule += "; loops without a loop variable whose body deletes / inserts keys (directly, alias, procedure, nested, inside functions, map held in any / array element), iteration counts compared with the twin loop with a variable and with the evaluator model"
	for i := 0; i < cfg.N(200, 4000); i++ {
		c12NoVarCase(sem, r, c12NoVarLoops(cfg.Rng))
	}
}

// c12DeepEq builds two (or three) maps whose values are arrays / maps, some of them THE SAME cell in both maps
// (composites are shared), some structurally equal copies, some different, with different insertion orders and key
// sets, and prints every equality in both directions, before and after an update through an alias. "Map equality
// ignores order and compares values deeply": decided by the evaluator model (coq/Sem.v, C01's equals theorems).
func c12DeepEq(rng *rand.Rand) string {
	var b strings.Builder
	w := func(f string, a ...any) { fmt.Fprintf(&b, f+"\n", a...) }
	arr := rng.Intn(2) == 0
	lits := []string{"[1 2]", "[1 2]", "[3]", "[1 2 3]"}
	if !arr {
		lits = []string{"{y:1}", "{y:1}", "{y:2}", "{y:1 x:0}"}
	}
	for i, l := range lits {
		w("in%d := %s", i, l)
	}
	keys := []string{"a", "b", "c", "k"}
	val := func() string {
		if rng.Intn(2) == 0 {
			return fmt.Sprintf("in%d", rng.Intn(len(lits))) // shared cell
		}
		return lits[rng.Intn(len(lits))] // fresh cell
	}
	names := []string{"p", "q", "r"}[:2+rng.Intn(2)]
	base := map[string]string{}
	for _, k := range keys[:2+rng.Intn(3)] {
		base[k] = val()
	}
	for _, n := range names {
		ks := append([]string(nil), keys...)
		rng.Shuffle(len(ks), func(i, j int) { ks[i], ks[j] = ks[j], ks[i] })
		var pairs []string
		for _, k := range ks {
			v, ok := base[k]
			if !ok {
				continue
			}
			switch rng.Intn(6) {
			case 0:
				v = val() // possibly different value
			case 1:
				continue // key missing
			}
			pairs = append(pairs, k+":"+v)
		}
		if len(pairs) == 0 {
			pairs = append(pairs, "a:"+val())
		}
		w("%s := {%s}", n, strings.Join(pairs, " "))
		if rng.Intn(3) == 0 { // build part of it by operations
			k := keys[rng.Intn(len(keys))]
			w("%s.%s = %s", n, k, val())
			if rng.Intn(2) == 0 {
				w("del %s %q", n, keys[rng.Intn(len(keys))])
			}
		}
	}
	cmp := func() {
		for i, x := range names {
			for j, y := range names {
				if i != j {
					w("print %q (%s == %s) (%s != %s) ([%s] == [%s])", x+y, x, y, x, y, x, y)
				}
			}
		}
		w("print %s", strings.Join(names, " "))
	}
	cmp()
	if arr {
		w("in0[0] = 9")
	} else {
		w("in0.y = 9")
	}
	cmp()
	// a map of mixed value types ({}any) holding a shared composite: printed, the composite changed through its own
	// name (no operation on the outer map), printed again through both aliases; then an insert into the outer map
	upd := func(v int) string {
		if arr {
			return fmt.Sprintf("in1[0] = %d", v)
		}
		return fmt.Sprintf("in1.y = %d", v)
	}
	w("hm := {a:in1 b:2 c:\"s\"}\nhm2 := hm\nha := [in1 \"s\" 1]\nprint \"h1\" hm hm2 ha (sprint hm)")
	w("%s\nprint \"h2\" hm hm2 ha (sprint hm) (sprint ha)", upd(11+rng.Intn(9)))
	w("hm.d = in2\nprint \"h3\" hm\n%s\nprint \"h4\" hm hm2 (len hm)", upd(31+rng.Intn(9)))
	w("del hm \"b\"\n%s\nprint \"h5\" hm hm2 ha", upd(51+rng.Intn(9)))
	w("print in0 in1 in2 in3")
	return b.String()
}

type c12Case struct {
	lit [][2]any
	ops []mop
}

var c12Corpus = []c12Case{
	{[][2]any{{"a", int64(1)}, {"b", int64(2)}, {"c", int64(3)}},
		[]mop{{Kind: "loop", Body: []mop{{Kind: "del", Key: "a"}, {Kind: "del", Key: "b"}, {Kind: "del", Key: "c"}}}, {Kind: "print"}}},
	{[][2]any{{"a", int64(1)}}, []mop{{Kind: "loop", Body: []mop{{Kind: "set", Key: "k1", Val: 9}}}, {Kind: "print"}}},
	{[][2]any{{"a", int64(1)}, {"b", int64(2)}}, []mop{{Kind: "del", Key: "a"}, {Kind: "set", Key: "a", Val: 5}, {Kind: "print"}, {Kind: "set", Key: "b", Val: 7}, {Kind: "print"}, {Kind: "get", Key: "c"}}},
	{[][2]any{{"a", int64(1)}, {"b", int64(2)}}, []mop{{Kind: "loop", Body: []mop{{Kind: "del", Key: ""}, {Kind: "set", Key: "", Val: 4}, {Kind: "len"}}}, {Kind: "print"}, {Kind: "eq", Lit: [][2]any{{"b", int64(4)}, {"a", int64(4)}}}}},
}

func init() {
	abc := [][2]any{{"a", int64(1)}, {"b", int64(2)}, {"c", int64(3)}}
	c12Corpus = append(c12Corpus,
		// loops without a loop variable: a key deleted before its turn is not visited
		c12Case{abc, []mop{{Kind: "loop", NoVar: true, Body: []mop{{Kind: "del", Key: "c"}}}, {Kind: "print"}, {Kind: "len"}}},
		c12Case{abc, []mop{{Kind: "loop", NoVar: true, Body: []mop{{Kind: "del", Key: "a"}, {Kind: "del", Key: "b"}, {Kind: "del", Key: "c"}, {Kind: "len"}}}, {Kind: "print"}}},
		c12Case{abc, []mop{{Kind: "loop", NoVar: true, Body: []mop{{Kind: "set", Key: "k1", Val: 4}, {Kind: "del", Key: "b"}, {Kind: "set", Key: "b", Val: 5}}}, {Kind: "print"}}},
		c12Case{abc, []mop{{Kind: "loop", NoVar: true, Body: []mop{{Kind: "loop", NoVar: true, Body: []mop{{Kind: "del", Key: "b"}}}, {Kind: "len"}}}, {Kind: "print"}}},
		c12Case{abc, []mop{{Kind: "loop", Body: []mop{{Kind: "loop", NoVar: true, Body: []mop{{Kind: "del", Key: "c"}, {Kind: "set", Key: "c", Val: 7}}}, {Kind: "del", Key: ""}}}, {Kind: "print"}}},
	)
	register("C12", runC12)
}

// c12NoVarLoops: `for range m` (no loop variable) over a map whose body changes the map - deletes keys that are
// still to come, the current one, visited ones, re-inserts, inserts new keys; directly, through an alias, through a
// procedure, in a nested loop, inside a function that is given the map - and counts its iterations. The same body
// runs in a twin loop WITH a loop variable over an equal map: "a key deleted before its turn is not visited"
// holds for both forms, so both count the same (line "twin" must print true). Everything printed is also
// compared with the evaluator model (coq/Sem.v).
func c12NoVarLoops(rng *rand.Rand) string {
	var b strings.Builder
	w := func(f string, a ...any) { fmt.Fprintf(&b, f+"\n", a...) }
	keys := []string{"a", "b", "c", "d", "e"}[:2+rng.Intn(4)]
	extra := []string{"x", "y"}
	var pairs []string
	for i, k := range keys {
		pairs = append(pairs, fmt.Sprintf("%s:%d", k, i+1))
	}
	lit := "{" + strings.Join(pairs, " ") + "}"
	w("func delk mm:{}num k:string\n    del mm k\nend")
	w("func drain:num mm:{}num\n    cnt := 0\n    for range mm\n        cnt = cnt + 1\n        for k := range mm\n            del mm k\n        end\n    end\n    return cnt\nend")
	w("func visits:num mm:{}num victim:string\n    cnt := 0\n    for range mm\n        cnt = cnt + 1\n        del mm victim\n    end\n    return cnt\nend")
	anyKey := func() string {
		if rng.Intn(5) == 0 {
			return extra[rng.Intn(len(extra))]
		}
		return keys[rng.Intn(len(keys))]
	}
	// body lines with placeholders: $M map, $A alias, $N counter
	var body func(ind string, depth int) []string
	body = func(ind string, depth int) []string {
		var l []string
		for i, n := 0, 1+rng.Intn(4); i < n; i++ {
			k := anyKey()
			switch c := rng.Intn(14); {
			case c < 3:
				l = append(l, fmt.Sprintf("%sdel $M %q", ind, k))
			case c < 5:
				l = append(l, fmt.Sprintf("%sdel $A %q", ind, k))
			case c < 6:
				l = append(l, fmt.Sprintf("%sdelk $M %q", ind, k))
			case c < 7:
				l = append(l, fmt.Sprintf("%s$M.%s = $N * 10", ind, k))
			case c < 8:
				l = append(l, fmt.Sprintf("%s$A[%q] = $N", ind, k))
			case c < 10 && depth < 2:
				l = append(l, fmt.Sprintf("%sif $N == %d", ind, 1+rng.Intn(3)))
				l = append(l, body(ind+"    ", depth+1)...)
				l = append(l, ind+"end")
			case c < 11 && depth < 2:
				l = append(l, fmt.Sprintf("%sfor range $M", ind), ind+"    $N = $N + 100")
				l = append(l, body(ind+"    ", depth+2)...)
				l = append(l, ind+"end")
			case c < 12:
				l = append(l, fmt.Sprintf("%sprint \"in\" $N (len $M) (has $A %q)", ind, k))
			case c < 13 && depth == 0:
				l = append(l, fmt.Sprintf("%sif $N > %d\n%s    break\n%send", ind, 1+rng.Intn(4), ind, ind))
			default:
				l = append(l, fmt.Sprintf("%sdel $M %q\n%s$M.%s = 0", ind, k, ind, k))
			}
		}
		return l
	}
	lines := body("    ", 0)
	inst := func(m, a, n string) string {
		return strings.NewReplacer("$M", m, "$A", a, "$N", n).Replace(strings.Join(lines, "\n"))
	}
	w("m := %s\nma := m\nn := 0", lit)
	w("for range m\n    n = n + 1\n%s\nend", inst("m", "ma", "n"))
	w("print \"novar\" n m (len ma)")
	w("t := %s\nta := t\nnt := 0", lit)
	w("for kk := range t\n    nt = nt + 1\n    if kk == \"\"\n        print kk\n    end\n%s\nend", inst("t", "ta", "nt"))
	w("print \"withvar\" nt t (len ta)")
	w("print \"twin\" (n == nt) (m == t)")
	// inside functions
	w("f := %s", lit)
	victim := anyKey()
	w("print \"visits\" (visits f %q) f", victim)
	w("g := %s\nprint \"drain\" (drain g) g (len g)", lit)
	// a loop without loop variable over a map held in an any / an array element / a map value
	w("w:any\nw = %s\nnw := 0\nfor range w.({}num)\n    nw = nw + 1\n    del w.({}num) %q\nend\nprint \"any\" nw w", lit, anyKey())
	w("arr := [%s %s]\nna := 0\nfor range arr[1]\n    na = na + 1\n    del arr[1] %q\n    del arr[0] %q\nend\nprint \"elem\" na arr", lit, lit, anyKey(), anyKey())
	return b.String()
}

func c12NoVarCase(model *Model, r *Result, src string) {
	d := semCase(model, r, src, SemOpts{StopAt: -1, YieldBudget: 50000}, true, "novar-loop:")
	if d.Skipped != "" || len(d.Impl.Phases) == 0 {
		return
	}
	for _, t := range d.Impl.Phases[0].Trace {
		if strings.HasPrefix(t, "print:twin ") && strings.Contains(t, "false") {
			r.Violate(Violation{Kind: "property", Key: "novar-loop:iterations-differ-from-loop-with-variable",
				Detail: "`for range m` and `for k := range m` with the same body over equal maps run a different number of times / leave different maps: a key deleted before its turn must not be visited in either form (" + strings.TrimSpace(t) + ")",
				Input:  map[string]any{"program": src}, Impl: d.Impl.Phases})
			return
		}
	}
}
