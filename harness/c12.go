package main

import (
	"fmt"
	"math/rand"
	"strings"
)

// C12: histories of map operations, rendered as evy programs (through up to
// three aliases and a helper procedure), run on the real evaluator and on the
// extracted Omap model.

type mop struct {
	Kind string // set del get has len print eq loop
	Key  string // "" = loop variable (KVar)
	Val  int64
	Lit  [][2]any // for eq: pairs
	Body []mop
}

var c12Keys = []string{"a", "b", "c", "k1"}

func genC12Ops(rng *rand.Rand, n int, depth int, inLoop bool) []mop {
	ops := make([]mop, 0, n)
	for i := 0; i < n; i++ {
		key := c12Keys[rng.Intn(len(c12Keys))]
		if inLoop && rng.Intn(3) == 0 {
			key = ""
		}
		switch k := rng.Intn(20); {
		case k < 5:
			ops = append(ops, mop{Kind: "set", Key: key, Val: int64(rng.Intn(19) - 9)})
		case k < 9:
			ops = append(ops, mop{Kind: "del", Key: key})
		case k < 11:
			ops = append(ops, mop{Kind: "get", Key: key})
		case k < 13:
			ops = append(ops, mop{Kind: "has", Key: key})
		case k < 14:
			ops = append(ops, mop{Kind: "len"})
		case k < 16:
			ops = append(ops, mop{Kind: "print"})
		case k < 17:
			ops = append(ops, mop{Kind: "eq", Lit: genC12Lit(rng, 1+rng.Intn(3))})
		default:
			if depth < 2 {
				ops = append(ops, mop{Kind: "loop", Body: genC12Ops(rng, rng.Intn(4), depth+1, true)})
			} else {
				ops = append(ops, mop{Kind: "print"})
			}
		}
	}
	return ops
}

func genC12Lit(rng *rand.Rand, n int) [][2]any {
	perm := rng.Perm(len(c12Keys))
	if n > len(perm) {
		n = len(perm)
	}
	lit := make([][2]any, 0, n)
	for _, i := range perm[:n] {
		lit = append(lit, [2]any{c12Keys[i], int64(rng.Intn(7) - 3)})
	}
	return lit
}

func c12OpsSX(ops []mop) SX {
	l := make([]SX, 0, len(ops))
	for _, o := range ops {
		k := Str(o.Key)
		if o.Key == "" {
			k = Sym("var")
		}
		switch o.Kind {
		case "set":
			l = append(l, Lst(Sym("set"), k, Int(o.Val)))
		case "del", "get", "has":
			l = append(l, Lst(Sym(o.Kind), k))
		case "len", "print":
			l = append(l, Lst(Sym(o.Kind)))
		case "eq":
			l = append(l, Lst(Sym("eq"), c12LitSX(o.Lit)))
		case "loop":
			l = append(l, Lst(Sym("loop"), c12OpsSX(o.Body)))
		}
	}
	return LstOf(l)
}

func c12LitSX(lit [][2]any) SX {
	l := make([]SX, 0, len(lit))
	for _, kv := range lit {
		l = append(l, Lst(Str(kv[0].(string)), Int(kv[1].(int64))))
	}
	return LstOf(l)
}

func c12LitEvy(lit [][2]any) string {
	parts := []string{}
	for _, kv := range lit {
		parts = append(parts, fmt.Sprintf("%s:%d", kv[0], kv[1]))
	}
	return "{" + strings.Join(parts, " ") + "}"
}

// render turns a history into an evy program. style picks, per operation, one
// of the aliases and one of the equivalent syntaxes; it must not matter.
func c12Render(lit [][2]any, ops []mop, rng *rand.Rand) string {
	var b strings.Builder
	b.WriteString("func setk mm:{}num k:string v:num\n    mm[k] = v\nend\n")
	b.WriteString("func delk mm:{}num k:string\n    del mm k\nend\n")
	b.WriteString("func getk:num mm:{}num k:string\n    return mm[k]\nend\n")
	b.WriteString("m:{}num\n")
	b.WriteString("m = " + c12LitEvy(lit) + "\n")
	b.WriteString("m2 := m\nm3 := m2\n")
	b.WriteString("w:any\nw = m\nm4 := w.({}num)\n")
	b.WriteString("print (len m) (len m2) (len m3) (len m4)\n")
	aliases := []string{"m", "m2", "m3", "m4"}
	var emit func(ops []mop, indent string, loopVar string, depth int)
	emit = func(ops []mop, indent string, loopVar string, depth int) {
		for _, o := range ops {
			a := aliases[rng.Intn(len(aliases))]
			keyExpr := fmt.Sprintf("%q", o.Key)
			isVar := o.Key == ""
			if isVar {
				keyExpr = loopVar
			}
			switch o.Kind {
			case "set":
				switch s := rng.Intn(3); {
				case s == 0 && !isVar:
					fmt.Fprintf(&b, "%s%s.%s = %d\n", indent, a, o.Key, o.Val)
				case s == 1:
					fmt.Fprintf(&b, "%ssetk %s %s %d\n", indent, a, keyExpr, o.Val)
				default:
					fmt.Fprintf(&b, "%s%s[%s] = %d\n", indent, a, keyExpr, o.Val)
				}
			case "del":
				if rng.Intn(2) == 0 {
					fmt.Fprintf(&b, "%sdel %s %s\n", indent, a, keyExpr)
				} else {
					fmt.Fprintf(&b, "%sdelk %s %s\n", indent, a, keyExpr)
				}
			case "get":
				switch s := rng.Intn(3); {
				case s == 0 && !isVar:
					fmt.Fprintf(&b, "%sprint %s.%s\n", indent, a, o.Key)
				case s == 1:
					fmt.Fprintf(&b, "%sprint (getk %s %s)\n", indent, a, keyExpr)
				default:
					fmt.Fprintf(&b, "%sprint %s[%s]\n", indent, a, keyExpr)
				}
			case "has":
				fmt.Fprintf(&b, "%sprint (has %s %s)\n", indent, a, keyExpr)
			case "len":
				fmt.Fprintf(&b, "%sprint (len %s)\n", indent, a)
			case "print":
				fmt.Fprintf(&b, "%sprint %s\n", indent, a)
			case "eq":
				if rng.Intn(2) == 0 {
					fmt.Fprintf(&b, "%sprint (%s == %s)\n", indent, a, c12LitEvy(o.Lit))
				} else {
					fmt.Fprintf(&b, "%sprint (%s == %s)\n", indent, c12LitEvy(o.Lit), a)
				}
			case "loop":
				v := fmt.Sprintf("k%d", depth)
				fmt.Fprintf(&b, "%sfor %s := range %s\n%s    print %s\n", indent, v, a, indent, v)
				emit(o.Body, indent+"    ", v, depth+1)
				fmt.Fprintf(&b, "%send\n", indent)
			}
		}
	}
	emit(ops, "", "", 0)
	return b.String()
}

func c12Nontrivial(ops []mop) bool {
	mut, obsAfter, n := false, false, 0
	var walk func(ops []mop)
	walk = func(ops []mop) {
		for _, o := range ops {
			n++
			switch o.Kind {
			case "set", "del":
				mut = true
			case "loop":
				if mut {
					obsAfter = true
				}
				walk(o.Body)
			default:
				if mut {
					obsAfter = true
				}
			}
		}
	}
	walk(ops)
	return n >= 3 && mut && obsAfter
}

func c12Check(lit [][2]any, ops []mop, renderSeed int64, model *Model, r *Result) {
	src := c12Render(lit, ops, rand.New(rand.NewSource(renderSeed)))
	caseSX := Lst(c12LitSX(lit), c12OpsSX(ops))
	r.Count(caseSX.String(), c12Nontrivial(ops))
	out := RunEvy(src, RunOpts{})
	ans, err := model.Ask(caseSX.String())
	if err != nil {
		r.Violate(Violation{Kind: "correspondence", Key: "model-crash", Detail: err.Error(), Input: src})
		return
	}
	msx, err := ParseSX(ans)
	if err != nil || msx.Kind != "lst" || len(msx.L) < 1 {
		r.Violate(Violation{Kind: "correspondence", Key: "model-output", Detail: ans, Input: src})
		return
	}
	mstat := msx.L[0].S
	mouts := []string{}
	for _, x := range msx.L[1:] {
		mouts = append(mouts, x.S)
	}
	// implementation observables: prints after the preamble line, status
	iouts := []string{}
	for _, p := range out.Prints {
		iouts = append(iouts, strings.TrimSuffix(p, "\n"))
	}
	if len(iouts) > 0 {
		iouts = iouts[1:] // preamble "true"
	}
	istat := map[string]string{"ok": "ok", "panic:MapKey": "mapkey"}[out.Class]
	if istat == "" {
		istat = out.Class
	}
	r.Dist("status:" + istat)
	r.Validated++
	if istat != mstat || strings.Join(iouts, "\x1e") != strings.Join(mouts, "\x1e") {
		key := "history-output-differs"
		if istat != mstat {
			key = "history-status-differs:" + istat + "-vs-" + mstat
		}
		r.Violate(Violation{Kind: "property", Key: key,
			Detail: "the implementation does not print what the insertion-ordered dictionary (to which the model is proved equal) prints",
			Input:  map[string]any{"program": src, "case": caseSX.String(), "render_seed": renderSeed},
			Impl:   map[string]any{"status": istat, "outs": iouts, "err": out.ErrText + out.ParseErr + out.GoPanic},
			Model:  map[string]any{"status": mstat, "outs": mouts}})
	}
	if len(r.Samples) < 3 {
		r.Sample(map[string]any{"program": src, "outs": iouts, "status": istat})
	}
}

func runC12(cfg Config, r *Result) {
	model, err := StartModel("omap")
	if err != nil {
		r.Violate(Violation{Kind: "correspondence", Key: "model-start", Detail: err.Error()})
		return
	}
	defer model.Close()
	r.Rule = "random histories over keys {a,b,c,k1}: literal of 0-4 pairs, then up to L operations (set/del/get/has/len/print/==literal/nested loops over the same map with body operations, key operand = literal or loop variable), rendered as an evy program through 4 aliases (direct, :=, via any + type assertion, via procedure parameters) and alternative syntaxes; non-trivial = at least 3 operations with a mutation that is later observed; distinct = distinct (literal, operation list)"
	// corpus first
	for _, c := range c12Corpus {
		c12Check(c.lit, c.ops, 1, model, r)
	}
	n := cfg.N(1500, 40000)
	maxLen := cfg.N(12, 40)
	for i := 0; i < n; i++ {
		lit := genC12Lit(cfg.Rng, cfg.Rng.Intn(5))
		ops := genC12Ops(cfg.Rng, 1+cfg.Rng.Intn(maxLen), 0, false)
		c12Check(lit, ops, cfg.Rng.Int63(), model, r)
	}
}

type c12Case struct {
	lit [][2]any
	ops []mop
}

var c12Corpus = []c12Case{
	{[][2]any{{"a", int64(1)}, {"b", int64(2)}, {"c", int64(3)}},
		[]mop{{Kind: "loop", Body: []mop{{Kind: "del", Key: "a"}, {Kind: "del", Key: "b"}, {Kind: "del", Key: "c"}}}, {Kind: "print"}}},
	{[][2]any{{"a", int64(1)}}, []mop{{Kind: "loop", Body: []mop{{Kind: "set", Key: "k1", Val: 9}}}, {Kind: "print"}}},
	{[][2]any{{"a", int64(1)}, {"b", int64(2)}}, []mop{{Kind: "del", Key: "a"}, {Kind: "set", Key: "a", Val: 5}, {Kind: "print"}, {Kind: "set", Key: "b", Val: 7}, {Kind: "print"}, {Kind: "get", Key: "c"}}},
	{[][2]any{{"a", int64(1)}, {"b", int64(2)}}, []mop{{Kind: "loop", Body: []mop{{Kind: "del", Key: ""}, {Kind: "set", Key: "", Val: 4}, {Kind: "len"}}}, {Kind: "print"}, {Kind: "eq", Lit: [][2]any{{"b", int64(4)}, {"a", int64(4)}}}}},
}

func init() { register("C12", runC12) }
