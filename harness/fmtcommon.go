package main

import (
	"fmt"
	"math/rand"
	"os"
	"path/filepath"
	"sort"
	"strconv"
	"strings"
	"unicode"

	"evylang.dev/evy/pkg/lexer"
	"evylang.dev/evy/pkg/parser"
)

// Shared pieces of the formatter checks (C06, C07): real-lexer token
// sequences, the query to the extracted Format model, layout decorators.

// ---------- significant tokens through the real lexer ----------

type sigTok struct {
	Type lexer.TokenType
	Text string // source text of the token (slice of the input)
	Norm string // value-level form: numbers by bit pattern, strings by value, comments trimmed
}

// lexSig returns the significant (non-WS, non-NL) tokens of src as the real
// lexer delimits them, with their source text.
func lexSig(src string) (toks []sigTok, illegal bool) {
	runes := []rune(src)
	l := lexer.New(src)
	var all []*lexer.Token
	for {
		t := l.Next()
		all = append(all, t)
		if t.Type == lexer.EOF {
			break
		}
	}
	for i, t := range all {
		if t.Type == lexer.EOF || t.Type == lexer.WS || t.Type == lexer.NL {
			continue
		}
		end := len(runes)
		if i+1 < len(all) && all[i+1].Offset <= len(runes) {
			end = all[i+1].Offset
		}
		if t.Offset > end {
			end = t.Offset
		}
		text := string(runes[t.Offset:end])
		norm := text
		switch t.Type {
		case lexer.ILLEGAL:
			illegal = true
		case lexer.NUM_LIT:
			if v, err := strconv.ParseFloat(t.Literal, 64); err == nil {
				norm = fmt.Sprintf("num:%x", canonBits(v))
			}
		case lexer.STRING_LIT:
			norm = "str:" + t.Literal
		case lexer.COMMENT:
			norm = strings.TrimSpace(t.Literal)
		}
		toks = append(toks, sigTok{Type: t.Type, Text: text, Norm: norm})
	}
	return toks, illegal
}

func sigNorms(ts []sigTok) []string {
	out := make([]string, len(ts))
	for i, t := range ts {
		out[i] = t.Type.String() + "\x1f" + t.Norm
	}
	return out
}

func firstDiff(a, b []string) string {
	n := len(a)
	if len(b) < n {
		n = len(b)
	}
	for i := 0; i < n; i++ {
		if a[i] != b[i] {
			return fmt.Sprintf("token %d: %q vs %q", i, a[i], b[i])
		}
	}
	if len(a) != len(b) {
		if len(a) > len(b) {
			return fmt.Sprintf("token %d: %q vs <end> (%d vs %d tokens)", n, a[n], len(a), len(b))
		}
		return fmt.Sprintf("token %d: <end> vs %q (%d vs %d tokens)", n, b[n], len(a), len(b))
	}
	return ""
}

// ---------- Format model ----------

type fmtModelOut struct {
	Text      string
	Tokens    []string
	WF        bool
	Shape     bool
	OneNL     bool
	FixedText string
	NlAfter   []int
	SkelStep  string
	Stripped  string
}

func askFormatModel(m *Model, prog *parser.Program) (fmtModelOut, error) {
	var out fmtModelOut
	sx, err := ExportFmtProgram(prog)
	if err != nil {
		return out, fmt.Errorf("export: %w", err)
	}
	ans, err := m.Ask(sx.String())
	if err != nil {
		return out, fmt.Errorf("model process: %w", err)
	}
	r, err := ParseSX(ans)
	if err != nil || r.Kind != "lst" || len(r.L) != 10 || r.L[0].S != "ok" {
		if len(ans) > 200 {
			ans = ans[:200]
		}
		return out, fmt.Errorf("model answer: %s", ans)
	}
	out.Text = r.L[1].S
	for _, t := range r.L[2].L {
		out.Tokens = append(out.Tokens, t.S)
	}
	out.WF = r.L[3].S == "true"
	out.Shape = r.L[4].S == "true"
	out.OneNL = r.L[5].S == "true"
	out.FixedText = r.L[6].S
	for _, n := range r.L[7].L {
		v, _ := strconv.Atoi(n.S)
		out.NlAfter = append(out.NlAfter, v)
	}
	out.SkelStep = r.L[8].String()
	out.Stripped = r.L[9].S
	return out, nil
}

// safeFormat runs Program.Format under recover.
func safeFormat(prog *parser.Program) (s string, err error) {
	defer func() {
		if r := recover(); r != nil {
			err = fmt.Errorf("gopanic: %v", r)
		}
	}()
	return prog.Format(), nil
}

// ---------- the shape predicate of C07 on text (same rules as Format.shape_lines / ends_one_nl) ----------

// shapeProblem returns "" if every line is 4k spaces + text without leading or
// trailing white space (or empty), there are no two consecutive empty lines
// and the text ends with exactly one newline.
func shapeProblem(text string) string {
	if text == "" {
		return "empty-output"
	}
	if !strings.HasSuffix(text, "\n") {
		return "no-final-newline"
	}
	lines := strings.Split(strings.TrimSuffix(text, "\n"), "\n")
	prevEmpty := false
	for _, ln := range lines {
		if ln == "" {
			if prevEmpty {
				return "two-consecutive-empty-lines"
			}
			prevEmpty = true
			continue
		}
		prevEmpty = false
		body := strings.TrimLeft(ln, " ")
		if body == "" {
			return "line-of-spaces"
		}
		if (len(ln)-len(body))%4 != 0 {
			return "indent-not-multiple-of-4"
		}
		if strings.TrimSpace(body) != body {
			return "leading-or-trailing-whitespace"
		}
	}
	if len(lines) > 1 && lines[len(lines)-1] == "" {
		return "trailing-blank-line"
	}
	return ""
}

// continuationProblem checks, with the real lexer, that every line that starts
// inside an open bracket (a continuation line of a multi-line array / map
// literal) is indented at least as far as the line its statement starts on.
func continuationProblem(formatted string) string {
	lines := strings.Split(formatted, "\n")
	indent := func(line int) int { // 1-based
		if line-1 >= len(lines) {
			return -1
		}
		return len(lines[line-1]) - len(strings.TrimLeft(lines[line-1], " "))
	}
	l := lexer.New(formatted)
	nest, stmtIndent := 0, indent(1)
	for {
		t := l.Next()
		switch t.Type {
		case lexer.EOF:
			return ""
		case lexer.LBRACKET, lexer.LCURLY, lexer.LPAREN:
			nest++
		case lexer.RBRACKET, lexer.RCURLY, lexer.RPAREN:
			if nest > 0 {
				nest--
			}
		case lexer.NL:
			if nest == 0 {
				stmtIndent = indent(t.Line + 1) // the next line starts a statement
			} else if t.Line < len(lines) && strings.TrimSpace(lines[t.Line]) != "" && indent(t.Line+1) < stmtIndent {
				return "continuation-line-less-indented-than-its-statement"
			}
		}
	}
}

// depthProblem checks on the re-parsed formatted text that every statement
// (and every comment line) starts at column 4*depth+1.
func depthProblem(formatted string, prog *parser.Program) string {
	lines := strings.Split(formatted, "\n")
	var problem string
	var walk func(stmts []parser.Node, depth int, endLine int)
	walk = func(stmts []parser.Node, depth int, endLine int) {
		for i, s := range stmts {
			tok := s.Token()
			if tok == nil {
				continue
			}
			if _, ok := s.(*parser.EmptyStmt); ok {
				if c, has := parser.VerifComment(prog, s); has && c != "" && tok.Col != 4*depth+1 && problem == "" {
					problem = "comment-line-not-at-4-times-depth"
				}
				continue
			}
			if tok.Col != 4*depth+1 && problem == "" {
				problem = "statement-not-at-4-times-depth"
			}
			// last line of this statement: line before the next statement's token, or the block's end
			last := endLine
			if i+1 < len(stmts) && stmts[i+1].Token() != nil {
				last = stmts[i+1].Token().Line - 1
			}
			switch n := s.(type) {
			case *parser.IfStmt:
				walk(n.IfBlock.Block.Statements, depth+1, last)
				for _, c := range n.ElseIfBlocks {
					walk(c.Block.Statements, depth+1, last)
				}
				if n.Else != nil {
					walk(n.Else.Statements, depth+1, last)
				}
			case *parser.WhileStmt:
				walk(n.Block.Statements, depth+1, last)
			case *parser.ForStmt:
				walk(n.Block.Statements, depth+1, last)
			case *parser.FuncDefStmt:
				walk(n.Body.Statements, depth+1, last)
			case *parser.EventHandlerStmt:
				walk(n.Body.Statements, depth+1, last)
			}
		}
	}
	walk(prog.Statements, 0, len(lines))
	return problem
}

// ---------- layout decorators ----------

var decoComments = []string{"// c", "//", "// a comment with  two spaces", "//x", "// \"quoted\" // nested", "// äö 日本", "// end", "// trailing   "}

// splitCodeString splits a line into segments alternating code / string literal
// (index 0 is code); comments do not occur in generator output.
func splitCodeString(line string) []string {
	var segs []string
	var b strings.Builder
	inStr, esc := false, false
	for _, r := range line {
		if inStr {
			b.WriteRune(r)
			if esc {
				esc = false
			} else if r == '\\' {
				esc = true
			} else if r == '"' {
				inStr = false
				segs = append(segs, b.String())
				b.Reset()
			}
			continue
		}
		if r == '"' {
			segs = append(segs, b.String())
			b.Reset()
			b.WriteRune(r)
			inStr = true
			continue
		}
		b.WriteRune(r)
	}
	segs = append(segs, b.String())
	return segs
}

// commentStart returns the byte offset of the `//` that starts a comment
// (outside string literals), or -1.
func commentStart(line string) int {
	inStr, esc := false, false
	for i := 0; i < len(line); i++ {
		c := line[i]
		if inStr {
			if esc {
				esc = false
			} else if c == '\\' {
				esc = true
			} else if c == '"' {
				inStr = false
			}
			continue
		}
		if c == '"' {
			inStr = true
		} else if c == '/' && i+1 < len(line) && line[i+1] == '/' {
			return i
		}
	}
	return -1
}

// widenSpaces lengthens existing runs of spaces outside string literals
// (a WS token is any run of blanks/tabs) and adds trailing blanks.
func widenSpaces(rng *rand.Rand, line string) string {
	if strings.TrimSpace(line) == "" {
		return line
	}
	if i := commentStart(line); i >= 0 {
		// keep comment text untouched
		return widenSpaces(rng, line[:i]) + line[i:]
	}
	indent := len(line) - len(strings.TrimLeft(line, " "))
	body := line[indent:]
	segs := splitCodeString(body)
	for i := 0; i < len(segs); i += 2 {
		var b strings.Builder
		for _, r := range segs[i] {
			b.WriteRune(r)
			if r == ' ' {
				switch rng.Intn(4) {
				case 0:
					b.WriteString(" ")
				case 1:
					b.WriteString("\t")
				case 2:
					b.WriteString("   ")
				}
			}
		}
		segs[i] = b.String()
	}
	// leading indentation is free-form
	lead := []string{"", " ", "  ", "\t", "      ", strings.Repeat(" ", indent)}[rng.Intn(6)]
	trail := []string{"", "", " ", "   ", " \t"}[rng.Intn(5)]
	return lead + strings.Join(segs, "") + trail
}

// decorateLayout returns a whitespace variant of src: blank runs lengthened
// (never created or removed), horizontal white space widened.
func whitespaceVariant(rng *rand.Rand, src string) string {
	tail := ""
	if i := strings.LastIndex(src, "\n"); !strings.HasSuffix(src, "\n") && strings.TrimSpace(src[i+1:]) == "" {
		// blanks after the last newline are not a line (no NL token follows): keep them out of the blank-run game
		tail = src[i+1:]
		src = src[:i+1]
	}
	if src == "" {
		return tail
	}
	lines := strings.Split(strings.TrimSuffix(src, "\n"), "\n")
	var out []string
	for _, ln := range lines {
		if strings.TrimSpace(ln) == "" {
			// a blank line: lengthen the run
			out = append(out, "")
			for rng.Intn(2) == 0 {
				out = append(out, []string{"", "  ", "\t"}[rng.Intn(3)])
			}
			continue
		}
		out = append(out, widenSpaces(rng, ln))
	}
	return strings.Join(out, "\n") + "\n" + tail
}

// multilineLiterals rewrites, with probability p per literal, the top-level
// separators of array / map literals of a line into newlines, optionally with
// comments and blank runs (the layouts parseMulitlineWS records).
func multilineLiterals(rng *rand.Rand, line string, p float64) string {
	if strings.Contains(line, "//") {
		return line
	}
	rs := []rune(line)
	var b strings.Builder
	type frame struct {
		open    rune
		literal bool // array/map literal chosen for rewriting
	}
	var stack []frame
	inStr, esc := false, false
	sepText := func() string {
		s := ""
		if rng.Intn(3) == 0 {
			s += " " + decoComments[rng.Intn(len(decoComments)-1)]
		}
		s += "\n"
		for rng.Intn(3) == 0 {
			s += "\n"
		}
		if rng.Intn(4) == 0 {
			s += strings.Repeat(" ", rng.Intn(9)) + decoComments[rng.Intn(len(decoComments)-1)] + "\n"
		}
		return s + strings.Repeat(" ", rng.Intn(9))
	}
	var prev rune
	for i := 0; i < len(rs); i++ {
		r := rs[i]
		if inStr {
			b.WriteRune(r)
			if esc {
				esc = false
			} else if r == '\\' {
				esc = true
			} else if r == '"' {
				inStr = false
			}
			prev = r
			continue
		}
		switch r {
		case '"':
			inStr = true
			b.WriteRune(r)
		case '[', '{':
			// a literal follows white space, an opening bracket, ':' or starts the expression
			isLit := prev == 0 || prev == ' ' || prev == '(' || prev == '[' || prev == ':' || prev == '{'
			next := rune(0)
			if i+1 < len(rs) {
				next = rs[i+1]
			}
			if r == '[' && next == ']' || r == '{' && next == '}' {
				// `[]` / `{}` is a type prefix (x:[]num, []{}num) or an empty literal; an empty literal may
				// hold newlines and comments between its brackets like any other literal
				after := rune(0)
				if i+2 < len(rs) {
					after = rs[i+2]
				}
				isType := prev == ':' || unicode.IsLetter(after) || after == '[' || after == '{' || after == '_'
				if isLit && !isType && rng.Float64() < p {
					b.WriteRune(r)
					b.WriteString(sepText())
					b.WriteRune(next)
					i++
					prev = next
					continue
				}
				isLit = false
			}
			chosen := isLit && rng.Float64() < p
			stack = append(stack, frame{open: r, literal: chosen})
			b.WriteRune(r)
			if chosen && rng.Intn(2) == 0 {
				b.WriteString(sepText())
			}
		case '(':
			stack = append(stack, frame{open: r})
			b.WriteRune(r)
		case ']', '}', ')':
			if len(stack) > 0 {
				top := stack[len(stack)-1]
				stack = stack[:len(stack)-1]
				if top.literal && rng.Intn(2) == 0 {
					b.WriteString(sepText())
				}
			}
			b.WriteRune(r)
		case ' ':
			if len(stack) > 0 && stack[len(stack)-1].literal {
				if rng.Intn(3) != 0 {
					b.WriteString(sepText())
				} else {
					b.WriteRune(r)
				}
			} else {
				b.WriteRune(r)
			}
		default:
			b.WriteRune(r)
		}
		prev = r
	}
	return b.String()
}

// decorate inserts comments at every kind of legal position (end of any
// line, own lines with arbitrary indentation), blank-line runs and multi-line
// literals into a program that has one statement per line.
func decorate(rng *rand.Rand, src string, density float64) string {
	lines := strings.Split(strings.TrimSuffix(src, "\n"), "\n")
	var out []string
	blankRun := func() {
		for n := rng.Intn(4); n > 0; n-- {
			out = append(out, []string{"", "", "   ", "\t"}[rng.Intn(4)])
		}
	}
	if rng.Float64() < density/2 {
		blankRun()
	}
	for _, ln := range lines {
		if rng.Float64() < density/2 {
			blankRun()
		}
		for rng.Float64() < density/2 {
			out = append(out, strings.Repeat(" ", rng.Intn(10))+decoComments[rng.Intn(len(decoComments))])
			if rng.Intn(4) == 0 {
				blankRun()
			}
		}
		if strings.TrimSpace(ln) != "" && !strings.Contains(ln, "//") {
			ln = multilineLiterals(rng, ln, density)
			if rng.Float64() < density {
				ln += []string{" ", "", "  ", "\t"}[rng.Intn(4)] + decoComments[rng.Intn(len(decoComments))]
			}
		}
		out = append(out, ln)
	}
	if rng.Float64() < density/2 {
		blankRun()
	}
	res := strings.Join(out, "\n")
	if rng.Intn(8) != 0 {
		res += "\n"
	}
	return res
}

// strayAfterEnd appends stray tokens after one `end` line (the known defect class).
func strayAfterEnd(rng *rand.Rand, src string) (string, bool) {
	return strayAfter(rng, src, func(t string) bool { return t == "end" })
}

// strayAfterLine appends stray tokens after one block header / else / statement line.
// Most such texts are rejected; an accepted one must still keep all its tokens when formatted.
func strayAfterLine(rng *rand.Rand, src string) (string, bool) {
	return strayAfter(rng, src, func(t string) bool {
		return t != "" && t != "end" && !strings.Contains(t, "//") && !strings.HasSuffix(t, "[") && !strings.HasSuffix(t, "{")
	})
}

func strayAfter(rng *rand.Rand, src string, pick func(trimmed string) bool) (string, bool) {
	lines := strings.Split(src, "\n")
	var idx []int
	for i, ln := range lines {
		if pick(strings.TrimSpace(ln)) {
			idx = append(idx, i)
		}
	}
	if len(idx) == 0 {
		return src, false
	}
	i := idx[rng.Intn(len(idx))]
	lines[i] += " " + []string{"garbage", "1 2 3", `"text"`, "end", "print 1", "x := 1", "+ - *", "garbage // with comment", ")", "]"}[rng.Intn(10)]
	return strings.Join(lines, "\n"), true
}

var fmtGenOpts = []GenOpts{
	{MaxStmts: 8, MaxDepth: 2, Funcs: true, Handlers: true, Tests: true, Gfx: true, MapLitPure: true, Empties: true},
	{MaxStmts: 5, MaxDepth: 3, Funcs: true, Specials: true, MapLitPure: true},
	{MaxStmts: 12, MaxDepth: 1, Funcs: true, Handlers: true, Reads: true, Gfx: true, MapLitPure: true, Empties: true},
}

// Hand-written layouts that the generators are unlikely to hit.
var fmtCorpus = []string{
	"",
	"\n",
	"\n\n\n",
	"// only a comment",
	"// only a comment\n\n\n",
	"\n\n// c\n\nx := 1\nprint x\n\n\n",
	"x := 1 // c\nprint x // d\n",
	"a := 1\nb := 2\n// c\nfunc f\n    print a b\nend\n",
	"a := 1\nb := 2\n// c\n// d\non down\n    print a b\nend\n",
	"func f\n    print 1\nend\nfunc g\n    print 2\nend\nf\ng\n",
	"func f\n    print 1\nend\n// about g\nfunc g\n    print 2\nend\n// stmt comment\nf\ng\n",
	"func f\n    print 1\nend\nf\nfunc g\n    print 2\nend\ng\n",
	"if true // c1\n    print 1 // c2\nelse if false // c3\n    print 2\nelse // c4\n    print 3\nend // c5\n",
	"while true // c1\n    break // c2\nend // c3\n",
	"for i := range 3 // c1\n    print i\nend // c2\nfor range 2\n    print 1\nend\n",
	"func f:num a:num b:[]{}string // c1\n    print b\n    return a // c2\nend // c3\nprint (f 1 [])\n",
	"func f a:num...\n    print a\nend\nf 1 2\n",
	"on key k:string // c\n    print k\nend // d\n",
	"x := [1 2 3]\nprint x\n",
	"x := [ 1 2 3 ]\nprint x\n",
	"x := [1 // one\n 2\n\n\n\n // three\n 3\n]\nprint x\n",
	"x := [ // c\n 1\n]\nprint x\n",
	"x := [\n\n\n 1 2\n 3]\nprint x\n",
	"x := [1 // c\n]\nprint x\n",
	"if true\n    x := [1 // c\n    ]\n    print x\nend\n",
	"if true\n    x := [1\n    2 // c\n    ]\n    print x\nend\n",
	"if true\n    m := {a:1 // c\n    }\n    print m\nend\n",
	"m := {a:1 b:2}\nprint m\n",
	"m := { a:1\n b:2 // two\n\n\n // c\n c:[1\n 2]\n}\nprint m\n",
	"m := {\n if:1\n end:[{a:[]} {}]\n}\nprint m\n",
	"x := [[1 2]\n [3\n 4]\n]\nprint x\n",
	"print 1+2 (3 - 4) [5 6][0] \"a b\"\n",
	"x := 1.50 + 007 + 1.\nprint x \"\\x41\\u00e4\\t\"\n",
	"x:num\ny:[]{}any // c\nprint x y\n",
	"a := [1 2 3]\nprint a[1:] a[:1] a[1:2] a[:] a[0]\n",
	"w:any\nw = 1\nprint w.(num) -w.(num) !true\n",
	"m := {a:1}\nm.a = 2\nm[\"b\"] = 3\nprint m.a m[\"b\"]\n",
	"print 1 // trailing ws in comment   \t\n",
	"print 1 \r\nprint 2 // c \r\n \r\nprint 3\u00a0// nbsp before comment is an illegal character\n",
	"print 1 \r\nprint 2 // c \r\n \r\n",
	"print \"tab\there\" \"\\\"q\\\"\" \"\\\\\"\n",
	"func f\n    print 1\n    return\nend\n\n\n\nf\n",
	"x := 1\n\n\n\n\nprint x\n",
	"if true\n\n\n    print 1\n\n\nend\n",
	"print (true)and(false) 1<2 \"a\"+\"b\"\n",
	"print 6/2 (6 / 2) (6/2)\nx := 6 / 2 / 3\nprint x\n",
}

// fmtInputs yields the input stream of the formatter checks.
type fmtInput struct {
	Src  string
	Kind string
}

// corpusFiles returns the regression cases stored under corpus/<id>/*.evy.
func corpusFiles(id string) []string {
	root := os.Getenv("VERIF_ROOT")
	if root == "" {
		root = "/verif"
	}
	names, _ := filepath.Glob(filepath.Join(root, "corpus", id, "*.evy"))
	sort.Strings(names)
	var out []string
	for _, n := range names {
		if b, err := os.ReadFile(n); err == nil {
			out = append(out, string(b))
		}
	}
	return out
}

func fmtInputs(cfg Config, nGen int, withStray bool) []fmtInput {
	var ins []fmtInput
	for _, id := range []string{"C06", "C07"} {
		for _, s := range corpusFiles(id) {
			ins = append(ins, fmtInput{s, "corpus-file"})
		}
	}
	for _, s := range fmtCorpus {
		ins = append(ins, fmtInput{s, "handwritten"})
	}
	// map literals whose keys are keywords / type names (allowed as keys), single- and multi-line, with comments inside the
	// values; and the same with a key REPEATED (not an accepted text on the unchanged tree: skipped as a parse error - if a
	// change makes it accepted, the formatter must still reproduce every token)
	kws := []string{"end", "if", "for", "while", "else", "return", "break", "on", "num", "string", "bool", "any", "true", "and", "range"}
	for i := 0; i < 12; i++ {
		k1, k2 := kws[cfg.Rng.Intn(len(kws))], kws[cfg.Rng.Intn(len(kws))]
		for _, dup := range []bool{false, true} {
			a, b := k1, k2
			if dup {
				b = k1
			} else if a == b {
				continue
			}
			ins = append(ins, fmtInput{fmt.Sprintf("m := {%s:1 %s:2 x:3}\nprint m m.%s\n", a, b, a), "keyword-keys"})
			ins = append(ins, fmtInput{fmt.Sprintf("m := {\n    %s:[1 // one\n        2]\n    %s:[3]\n    // tail\n}\nprint m\n", a, b), "keyword-keys-multiline"})
		}
	}
	corpus := CorpusPrograms()
	for _, s := range corpus {
		ins = append(ins, fmtInput{s, "repo-corpus"})
	}
	// decorated corpus programs (only those with one statement per line survive as valid; others are skipped as parse errors)
	for i, s := range corpus {
		if i%4 == int(cfg.Seed%4) || cfg.Tier == "thorough" {
			ins = append(ins, fmtInput{decorate(cfg.Rng, s, 0.3), "repo-corpus-decorated"})
		}
	}
	for i := 0; i < nGen; i++ {
		src, _, _ := GenProgram(cfg.Rng, fmtGenOpts[i%len(fmtGenOpts)])
		switch i % 4 {
		case 0:
			ins = append(ins, fmtInput{src, "generated"})
		case 1:
			ins = append(ins, fmtInput{decorate(cfg.Rng, src, 0.25), "generated-decorated"})
		case 2:
			ins = append(ins, fmtInput{decorate(cfg.Rng, src, 0.7), "generated-decorated-dense"})
		default:
			ins = append(ins, fmtInput{whitespaceVariant(cfg.Rng, decorate(cfg.Rng, src, 0.3)), "generated-decorated-wsvariant"})
		}
		if withStray && i%10 == 9 {
			if s, ok := strayAfterEnd(cfg.Rng, src); ok {
				ins = append(ins, fmtInput{s, "generated-stray-after-end"})
			}
		}
		if withStray && i%5 == 2 {
			if s, ok := strayAfterLine(cfg.Rng, src); ok {
				ins = append(ins, fmtInput{s, "generated-stray-after-line"})
			}
		}
	}
	return ins
}

// fmtNontrivial: the program has a block, a comment or a multi-line literal, and at least 3 statements' worth of tokens.
func fmtNontrivial(src string) bool {
	return len(strings.Fields(src)) >= 6 && (strings.Contains(src, "end") || strings.Contains(src, "//") || strings.Contains(src, "[\n"))
}
